"""Engine core (DESIGN.md section 3): loader/resolver + gated value graph + effect tree.

Everything here works on source text parsed with ``ast``; nothing of /repo is imported or run.

Terms are nested tuples (hashable, structurally compared):
  ("const", v) ("param", n) ("field0", n) ("global", dotted) ("self",)
  ("res", site, callee, args, kwargs)            opaque result of a call
  ("draw", site, primitive, args, kwargs, loops) result of an RNG primitive
  ("new", site, kind, items)                     fresh object (display, set()/list()/dict(), copy, ctor)
  ("fn", name, args)   pure function             ("op", o, a, b) ("cmp", o, a, b) ("not", x) ("neg", x)
  ("and", xs) ("or", xs) ("gate", c, a, b)       value after an if / conditional expression
  ("mu", lid, n) ("eta", lid, n) ("elem", lid)   loop-carried value inside / after loop, loop element
  ("sub", a, i) ("attr", a, n) ("tget", v, i) ("tuple", items) ("slice", a, b, c) ("star", x)
  ("comp", kind, lid, iter, key, val, conds)     comprehension; nested clauses: val = ("flat", comp)
  ("str", text) ("tryret", tid, rets) ("tryphi", tid, n) ("exc", line) ("undef",) ("default", text)
  ("lambda", site)

Events (namedtuples) form the effect tree mirroring the control structure.
"""
import ast
import re
import copy
import os
from collections import namedtuple

from .desugar import desugar

REPO = os.environ.get("IXAI_REPO", "/repo")
PACKAGE = "ixai"


class Unsupported(Exception):
    """A construct outside the analysable fragment on a path a rule needs (=> exit 2)."""


# ------------------------------------------------------------------------------------------------
# events
# ------------------------------------------------------------------------------------------------
If = namedtuple("If", "cond then orelse line fresh")
If.__new__.__defaults__ = (True,)
Loop = namedtuple("Loop", "lid iter target body carried line comp")
Try = namedtuple("Try", "tid body handlers line else_from", defaults=(None,))
# handlers: [Handler]; else_from: index in body where the `else:` clause starts (its events are not protected)
Handler = namedtuple("Handler", "exc name body term ret line probe", defaults=(None,))
# probe: (container, key) when the try body is the single statement `v = container[key]` (the handler of KeyError then
# runs exactly when the key is missing from a plain dict)
With = namedtuple("With", "items body line")
Inlined = namedtuple("Inlined", "qual body line cls fn params ret")
Call = namedtuple("Call", "callee method recv args kwargs res line")
Construct = namedtuple("Construct", "qual args kwargs res line")
Draw = namedtuple("Draw", "prim args kwargs res line")
Store = namedtuple("Store", "field value line aug")
SubStore = namedtuple("SubStore", "cont key value line aug")
AttrStore = namedtuple("AttrStore", "obj attr value line")
Mut = namedtuple("Mut", "recv method args kwargs res line")
Del = namedtuple("Del", "cont key line")
Return = namedtuple("Return", "value line")
Raise = namedtuple("Raise", "exc line")
Assert = namedtuple("Assert", "cond line")
Jump = namedtuple("Jump", "kind line")           # continue / break

LEAF = (Call, Construct, Draw, Store, SubStore, AttrStore, Mut, Del, Return, Raise, Assert, Jump)


# ------------------------------------------------------------------------------------------------
# loader / resolver
# ------------------------------------------------------------------------------------------------
class Module:
    def __init__(self, name, path, tree, is_pkg, text):
        self.name, self.path, self.tree, self.is_pkg, self.text = name, path, tree, is_pkg, text
        self.imports = {}      # local alias -> dotted name
        self.functions = {}    # name -> ast.FunctionDef
        self.classes = {}      # name -> ClassInfo
        self.consts = {}       # name -> ast expr (module-level simple assignments)
        self.lines = text.split("\n")


class ClassInfo:
    def __init__(self, module, node):
        self.module, self.node, self.name = module, node, node.name
        self.qual = f"{module.name}.{node.name}"
        self.methods = {}
        for n in node.body:
            if isinstance(n, ast.FunctionDef):
                # `@name.setter def name(...)` does not replace the getter: it is kept as `name.setter`
                acc = next((ast.unparse(d).rsplit(".", 1)[1] for d in n.decorator_list
                            if isinstance(d, ast.Attribute) and d.attr in ("setter", "deleter", "getter") and
                            isinstance(d.value, ast.Name) and d.value.id == n.name), None)
                if acc in ("setter", "deleter"):
                    self.methods[f"{n.name}.{acc}"] = n
                else:
                    self.methods[n.name] = n
        self.bases = []        # resolved ClassInfo or dotted str
        self.class_attrs = {}
        for n in node.body:
            if isinstance(n, ast.Assign):
                for t in n.targets:
                    if isinstance(t, ast.Name):
                        self.class_attrs[t.id] = n.value
            elif isinstance(n, ast.AnnAssign) and isinstance(n.target, ast.Name) and n.value is not None:
                self.class_attrs[n.target.id] = n.value

        # name = other_method (class body): the function defined in THIS class is bound under a second name -- a
        # subclass that overrides other_method does not change what `name` calls
        for n in node.body:
            if isinstance(n, ast.Assign) and len(n.targets) == 1 and isinstance(n.targets[0], ast.Name) and \
                    isinstance(n.value, ast.Name) and n.value.id in self.methods and n.targets[0].id not in self.methods:
                alias = copy.copy(self.methods[n.value.id])
                alias.name = n.targets[0].id
                self.methods[alias.name] = alias
                del self.class_attrs[n.targets[0].id]
        # name = functools.partialmethod(method, a, k=v): a method that calls `method` with these arguments first
        for n in node.body:
            if isinstance(n, ast.Assign) and len(n.targets) == 1 and isinstance(n.targets[0], ast.Name) and \
                    isinstance(n.value, ast.Call) and ast.unparse(n.value.func) in ("functools.partialmethod", "partialmethod") and \
                    n.value.args and isinstance(n.value.args[0], ast.Name) and n.value.args[0].id in self.methods and \
                    not any(isinstance(a, ast.Starred) for a in n.value.args) and all(k.arg for k in n.value.keywords) and \
                    not self.methods[n.value.args[0].id].decorator_list:
                fixed = [ast.unparse(a) for a in n.value.args[1:]] + [f"{k.arg}={ast.unparse(k.value)}" for k in n.value.keywords]
                src = (f"def {n.targets[0].id}(self, *args, **kwargs):\n"
                       f"    return self.{n.value.args[0].id}({', '.join(fixed + ['*args', '**kwargs'])})\n")
                fn = ast.parse(src).body[0]
                for sub in ast.walk(fn):
                    if isinstance(sub, (ast.expr, ast.stmt, ast.arg, ast.keyword)):
                        ast.copy_location(sub, n)
                        sub.end_lineno = getattr(n, "end_lineno", n.lineno)
                self.methods[fn.name] = fn
                self.class_attrs.pop(fn.name, None)
        # name = property(getter) / property(fget=getter): the getter is reachable under the public name
        for n in node.body:
            if isinstance(n, ast.Assign) and len(n.targets) == 1 and isinstance(n.targets[0], ast.Name) and \
                    isinstance(n.value, ast.Call) and isinstance(n.value.func, ast.Name) and n.value.func.id == "property":
                fget = n.value.args[0] if n.value.args else next((k.value for k in n.value.keywords if k.arg == "fget"), None)
                if isinstance(fget, ast.Name) and fget.id in self.methods:
                    alias = copy.copy(self.methods[fget.id])
                    alias.name = n.targets[0].id
                    alias.decorator_list = [ast.Name(id="property", ctx=ast.Load())]
                    self.methods[alias.name] = alias
                elif isinstance(fget, ast.Call) and not fget.keywords and len(fget.args) == 1 and \
                        isinstance(fget.args[0], ast.Constant) and isinstance(fget.args[0].value, str) and \
                        ast.unparse(fget.func) in ("attrgetter", "operator.attrgetter") and \
                        all(part.isidentifier() for part in fget.args[0].value.split(".")):
                    # property(attrgetter("a.b")) reads self.a.b
                    getter = ast.parse(f"@property\ndef {n.targets[0].id}(self):\n    return self.{fget.args[0].value}\n").body[0]
                    for sub in ast.walk(getter):
                        if isinstance(sub, (ast.expr, ast.stmt)):
                            ast.copy_location(sub, n)
                    self.methods[getter.name] = getter
        # enumerations: members are class-level names bound to constants; ("enum", class, member, value, kind) terms
        self.enum_members = None
        enum_bases = [ast.unparse(b) for b in node.bases]
        kinds = {"Enum": "enum", "enum.Enum": "enum", "IntEnum": "int", "enum.IntEnum": "int", "Flag": "flag", "enum.Flag": "flag",
                 "IntFlag": "flag", "enum.IntFlag": "flag", "StrEnum": "str", "enum.StrEnum": "str"}
        kind = next((kinds[b] for b in enum_bases if b in kinds), None)
        if kind is not None:
            if any(b in ("str", "int") for b in enum_bases):
                kind = "str" if "str" in enum_bases else "int"
            self.enum_kind = kind
            self.enum_members = {}
            for n in node.body:
                if isinstance(n, ast.Assign) and len(n.targets) == 1 and isinstance(n.targets[0], ast.Name) and \
                        not n.targets[0].id.startswith("_"):
                    self.enum_members[n.targets[0].id] = n.value
        # immutable record classes (typing.NamedTuple, frozen dataclasses without methods of their own that
        # matter to construction): constructing one is a tuple display with named components
        self.record_fields = None
        base_names = [ast.unparse(b) for b in node.bases]
        frozen = any(isinstance(d, ast.Call) and ast.unparse(d.func) in ("dataclass", "dataclasses.dataclass") and
                     any(k.arg == "frozen" and isinstance(k.value, ast.Constant) and k.value.value is True for k in d.keywords)
                     for d in node.decorator_list)
        if (any(b in ("NamedTuple", "typing.NamedTuple") for b in base_names) or frozen) and \
                not ({"__init__", "__new__", "__post_init__", "__getattr__", "__getattribute__"} & set(self.methods)):
            self.record_fields = [(n.target.id, n.value) for n in node.body
                                  if isinstance(n, ast.AnnAssign) and isinstance(n.target, ast.Name)]

    def __repr__(self):
        return f"<class {self.qual}>"


def read_sources(root=None, package=PACKAGE):
    root = root or REPO
    files = {}
    pkg_root = os.path.join(root, package)
    for dp, dns, fns in os.walk(pkg_root):
        dns[:] = [d for d in dns if d != "__pycache__"]
        for fn in fns:
            if fn.endswith(".py"):
                p = os.path.join(dp, fn)
                rel = os.path.relpath(p, root)
                with open(p, encoding="utf-8") as fh:
                    files[rel] = fh.read()
    return files


class Program:
    def __init__(self, sources=None, root=None, package=PACKAGE, overrides=None):
        """sources: full {relative path: text}; overrides: entries replacing/adding to what is on disk."""
        self.root = root or REPO
        self.modules = {}
        files = dict(sources) if sources is not None else read_sources(self.root, package)
        if overrides:
            files.update(overrides)
        self.files = files
        for rel, text in sorted(files.items()):
            modname = rel[:-3].replace(os.sep, ".")
            is_pkg = modname.endswith(".__init__")
            if is_pkg:
                modname = modname[: -len(".__init__")]
            tree = desugar(ast.parse(text, filename=rel))
            self.modules[modname] = Module(modname, rel, tree, is_pkg, text)
        self.fn_module = {}             # id(function node) -> module (defaults are evaluated where they are written)
        for m in self.modules.values():
            for n in ast.walk(m.tree):
                if isinstance(n, (ast.FunctionDef, ast.AsyncFunctionDef)):
                    self.fn_module[id(n)] = m
        for m in self.modules.values():
            self._index(m)
        for m in self.modules.values():
            for c in m.classes.values():
                c.bases = [self.resolve_class(m, b) or self._base_name(m, b) for b in c.node.bases]
        # names / attribute names of containers that some code changes in place (item assignment, mutator call, `del`,
        # augmented assignment): a dict display bound to such a name is not a constant table
        self.mutated_names, self.mutated_attrs = set(), set()
        for m in self.modules.values():
            for n in ast.walk(m.tree):
                tgt = None
                if isinstance(n, ast.Subscript) and isinstance(n.ctx, (ast.Store, ast.Del)):
                    tgt = n.value
                elif isinstance(n, ast.Call) and isinstance(n.func, ast.Attribute) and n.func.attr in MUTATORS:
                    tgt = n.func.value
                elif isinstance(n, ast.AugAssign):
                    tgt = n.target.value if isinstance(n.target, ast.Subscript) else n.target
                if isinstance(tgt, ast.Name):
                    self.mutated_names.add(tgt.id)
                elif isinstance(tgt, ast.Attribute):
                    self.mutated_attrs.add(tgt.attr)
        self.hazards = []               # constructs that are wrong wherever they occur, met in the analysed code
        self._hazard_keys = set()
        self._fn_hazards, self._class_hazards = self._static_hazards()
        self.class_hooks = {}           # class -> why its class-creation hook is not followed (methods are then undecided)
        self.registry_attrs = set()     # class-level containers filled by __init_subclass__ hooks
        self._instance_attrs = {}
        self._synthesise_dataclass_inits()
        self._synthesise_descriptor_reads()
        self._instance_attrs = {}
        self._apply_class_hooks()
        self._dynamic_features()
        self._summaries = {}
        self.record_classes = {}        # component names -> record classes constructed with them
        self.owned = {}                 # (class, field) -> private collaborator class constructed into that field
        self.record_field_names = {}    # (class, field) -> component names of a record-valued field
        self.list_literals = set()  # sites of `[...]` displays (the term shape is shared with list(x))
        self.list_models = {}       # list object -> (loop id, iterated term, initial items, value appended per iteration)
        self.genobjs = {}           # site -> (call node, bound arguments) of generator objects created but not yet run
        self.closures = {}          # site -> nested function definition + defining scope
        self.closure_cells = {}     # site -> (`nonlocal` names of the closure, the summariser that defines it)
        self.cell_ids = {}
        self.init_only = {}         # (class, attribute) -> assigned in constructors only
        self.ctor_callables = {}    # (class, field) -> the partial the constructor leaves there, over the object's state
        self.queue_lists = set()    # creation sites of local lists of pending calls whose appends are followed as values
        self.field_classes = {}     # (root class, field) -> class of the object the constructor leaves there
        self._instance_attrs = {}
        self._dict_record_ok = {}
        self.dict_records = {}      # (root class, field) -> keys of a constructor-built dict used as a fixed set of slots
        self.mirrors = {}           # (root class, owner.part) -> field of the owner that always holds an equal value
        self.field_aliases = {}     # (root class, owner.part) -> the field of the owner that holds the very same object
        self.nonnull = {}           # (root class, field) -> the attribute is never None once the object is constructed
        self.back_refs = {}         # (root class, owner.part) -> ("outer", prefix) when the part always denotes the owner
        self.descriptors = {}       # (class, attribute) -> property object built by a factory call in the class body
        self.stream_steps = {}      # id(generator definition) -> one-element function of an endless stream, or None
        self.next_of = {}           # iter(S) term -> element, while a loop walks S through an iterator object
        self.funcrefs = {}          # key -> (class, definition, decorator level): what a decorator receives
        self.wrappers = {}          # key -> closure a user decorator returned for a definition

    _RANDOM_ROOTS = ("random.", "numpy.random.", "np.random.", "time.", "secrets.", "uuid.", "os.urandom")

    def _static_hazards(self):
        """Constructs whose meaning differs from what they look like, located once:
        (1) a parameter default that calls a random generator / clock: evaluated once, when the function is defined;
        (2) a class-level container (list / dict / set / array built in the class body) that instance methods change in
            place through `self.<name>` while no instance ever gets a container of its own: shared by all instances."""
        by_fn, by_class, by_module = {}, {}, {}
        self._module_hazards = by_module
        for m in self.modules.values():
            for fn in ast.walk(m.tree):
                if not isinstance(fn, (ast.FunctionDef, ast.AsyncFunctionDef)):
                    continue
                a = fn.args
                pos = a.posonlyargs + a.args
                pairs = list(zip(pos[len(pos) - len(a.defaults):], a.defaults)) + \
                    [(x, d) for x, d in zip(a.kwonlyargs, a.kw_defaults) if d is not None]
                for arg, d in pairs:
                    for c in ast.walk(d):
                        if isinstance(c, ast.Call) and isinstance(c.func, (ast.Name, ast.Attribute)):
                            name = self.dotted_of(m, c.func) or ""
                            if (name + ".").startswith(self._RANDOM_ROOTS) or name in ("random.random", "time.time"):
                                by_fn.setdefault(id(fn), []).append((
                                    "default-evaluated-once", f"{m.path}:{d.lineno}", fn.name, f"{arg.arg}={ast.unparse(d)}",
                                    f"the default of parameter `{arg.arg}` of {fn.name} calls {name}(): defaults are evaluated "
                                    f"once, when the function is defined, so every call that relies on the default sees the "
                                    f"same value for the whole life of the process"))
            # (4) a lambda / nested function made once per item of a comprehension (or loop) that reads the loop variable
            #     and is kept: the variable is looked up when the function is called, i.e. after the loop -- every copy
            #     sees the last item
            for comp in ast.walk(m.tree):
                if not isinstance(comp, (ast.ListComp, ast.DictComp, ast.SetComp)):
                    continue
                bound = {x.id for g in comp.generators for x in ast.walk(g.target) if isinstance(x, ast.Name)}
                parts = [comp.key, comp.value] if isinstance(comp, ast.DictComp) else [comp.elt]
                for part in parts:
                    for lam in ast.walk(part):
                        if not isinstance(lam, ast.Lambda):
                            continue
                        own = {a.arg for a in lam.args.posonlyargs + lam.args.args + lam.args.kwonlyargs}
                        if lam.args.vararg:
                            own.add(lam.args.vararg.arg)
                        if lam.args.kwarg:
                            own.add(lam.args.kwarg.arg)
                        late = sorted({x.id for x in ast.walk(lam.body) if isinstance(x, ast.Name) and isinstance(x.ctx, ast.Load)
                                       and x.id in bound and x.id not in own})
                        # `(lambda f=f: ...)` binds at creation; a lambda that is called on the spot is harmless too
                        called_now = any(isinstance(c, ast.Call) and c.func is lam for c in ast.walk(part))
                        if late and not called_now:
                            by_module.setdefault(m.name, []).append((
                                "late-binding", f"{m.path}:{lam.lineno}", "<module>" , ast.unparse(lam)[:80],
                                f"the lambda created for every item of the comprehension reads the comprehension variable "
                                f"`{late[0]}` when it is *called*: by then the comprehension has finished and every copy sees "
                                f"the last item (bind it with a default argument, `lambda ..., {late[0]}={late[0]}: ...`)"))
            # (5) `isinstance(value, (int, float))` guarding a `raise`: NumPy scalars other than np.float64 (np.int64,
            #     np.float32, ...) are not instances of int / float, so ordinary numeric input is rejected
            for fn in ast.walk(m.tree):
                if not isinstance(fn, (ast.FunctionDef, ast.AsyncFunctionDef)):
                    continue
                params = {a.arg for a in fn.args.posonlyargs + fn.args.args + fn.args.kwonlyargs}
                for st in ast.walk(fn):
                    if not (isinstance(st, ast.If) and st.body and isinstance(st.body[-1], ast.Raise)):
                        continue
                    t = st.test
                    if isinstance(t, ast.UnaryOp) and isinstance(t.op, ast.Not):
                        t = t.operand
                    else:
                        continue
                    if isinstance(t, ast.Call) and isinstance(t.func, ast.Name) and t.func.id == "isinstance" and len(t.args) == 2 and \
                            isinstance(t.args[0], ast.Name) and t.args[0].id in params:
                        kinds = t.args[1].elts if isinstance(t.args[1], ast.Tuple) else [t.args[1]]
                        names = {k.id for k in kinds if isinstance(k, ast.Name)}
                        if names and names <= {"int", "float", "complex", "bool"} and len(names) == len(kinds):
                            by_fn.setdefault(id(fn), []).append((
                                "numeric-type-test", f"{m.path}:{st.lineno}", fn.name, ast.unparse(st.test),
                                f"{fn.name} rejects `{t.args[0].id}` unless it is an instance of {sorted(names)}: NumPy scalars "
                                f"such as np.int64 / np.float32 / np.float16 are numbers but not instances of int / float "
                                f"(numbers.Real / numbers.Number is the test that admits them)"))
            # (3) the truth value of an object whose class defines __len__ / __bool__ (a storage: empty means false)
            #     taken where "was one given at all" is meant
            for fn in ast.walk(m.tree):
                if not isinstance(fn, (ast.FunctionDef, ast.AsyncFunctionDef)):
                    continue
                sized = {}
                for a in fn.args.posonlyargs + fn.args.args + fn.args.kwonlyargs:
                    if a.annotation is None:
                        continue
                    for ident in set(re.findall(r"[A-Za-z_][A-Za-z_0-9]*", ast.unparse(a.annotation))):
                        r = self.resolve_name(m, ident)
                        if r and r[0] == "class" and any(self.find_method(r[1], d)[1] is not None for d in ("__len__", "__bool__")):
                            sized[a.arg] = r[1]
                if not sized:
                    continue
                tested = []

                def tests(e):
                    if isinstance(e, ast.BoolOp):
                        for v in e.values:
                            tests(v)
                    elif isinstance(e, ast.UnaryOp) and isinstance(e.op, ast.Not):
                        tests(e.operand)
                    else:
                        tested.append(e)
                for n in ast.walk(fn):
                    if isinstance(n, (ast.If, ast.While, ast.IfExp, ast.Assert)):
                        tests(n.test)
                    elif isinstance(n, ast.BoolOp):
                        for v in n.values[:-1]:
                            tests(v)
                    elif isinstance(n, ast.UnaryOp) and isinstance(n.op, ast.Not):
                        tests(n.operand)
                    elif isinstance(n, ast.Call) and isinstance(n.func, ast.Name) and n.func.id == "bool" and len(n.args) == 1:
                        tests(n.args[0])
                    elif isinstance(n, ast.comprehension):
                        for c in n.ifs:
                            tests(c)
                rebound = {x.id for x in ast.walk(fn) if isinstance(x, ast.Name) and isinstance(x.ctx, ast.Store)}
                for e in tested:
                    if isinstance(e, ast.Name) and e.id in sized and e.id not in rebound:
                        K = sized[e.id]
                        by_fn.setdefault(id(fn), []).append((
                            "truth-of-sized-object", f"{m.path}:{e.lineno}", fn.name, f"bool({e.id})",
                            f"{fn.name} takes the truth value of `{e.id}` ({K.name} defines "
                            f"{'__len__' if self.find_method(K, '__len__')[1] is not None else '__bool__'}): an object that "
                            f"holds nothing yet counts as false, which is not the same as `{e.id} is None`"))
            for K in m.classes.values():
                for attr, node in K.class_attrs.items():
                    mutable = isinstance(node, (ast.List, ast.Dict, ast.Set, ast.ListComp, ast.DictComp, ast.SetComp)) or \
                        (isinstance(node, ast.Call) and isinstance(node.func, (ast.Name, ast.Attribute)) and
                         (self.dotted_of(m, node.func) or ast.unparse(node.func)) in (
                             "list", "dict", "set", "bytearray", "collections.deque", "collections.defaultdict",
                             "collections.OrderedDict", "collections.Counter", "numpy.zeros", "numpy.ones", "numpy.empty",
                             "numpy.full", "numpy.array", "numpy.asarray", "numpy.zeros_like", "numpy.arange"))
                    if not mutable:
                        continue
                    rebinds, changes = False, []
                    for fn in K.methods.values():
                        me = fn.args.args[0].arg if fn.args.args else None
                        for n in ast.walk(fn):
                            if isinstance(n, ast.Attribute) and n.attr == attr and isinstance(n.ctx, ast.Store):
                                rebinds = True
                            if isinstance(n, ast.Subscript) and isinstance(n.ctx, (ast.Store, ast.Del)) and \
                                    isinstance(n.value, ast.Attribute) and n.value.attr == attr and \
                                    isinstance(n.value.value, ast.Name) and n.value.value.id == me:
                                changes.append((fn, n))
                            if isinstance(n, ast.Call) and isinstance(n.func, ast.Attribute) and n.func.attr in MUTATORS and \
                                    isinstance(n.func.value, ast.Attribute) and n.func.value.attr == attr and \
                                    isinstance(n.func.value.value, ast.Name) and n.func.value.value.id == me:
                                changes.append((fn, n))
                    if changes and not rebinds:
                        fn, n = changes[0]
                        by_class.setdefault(K.qual, []).append((
                            "class-level-state", f"{m.path}:{n.lineno}", f"{K.name}.{fn.name}", f"{K.name}.{attr}",
                            f"{K.name}.{attr} is created once in the class body and {fn.name} changes it in place through "
                            f"self.{attr}; no instance ever gets its own: all instances of {K.name} share this state"))
        return by_fn, by_class

    def hazard(self, key, entry):
        if key not in self._hazard_keys:
            self._hazard_keys.add(key)
            self.hazards.append(entry)

    @staticmethod
    def _dataclass_options(K):
        """Keyword options of the @dataclass decorator of the class, or None if it is not a dataclass."""
        for d in K.node.decorator_list:
            if ast.unparse(d.func if isinstance(d, ast.Call) else d) in ("dataclass", "dataclasses.dataclass"):
                return {k.arg: k.value for k in d.keywords} if isinstance(d, ast.Call) else {}
        return None

    def _synthesise_descriptor_reads(self):
        """`name = _Descriptor(args)` in a class body, with `_Descriptor` a private package class that defines `__get__`:
        reading `obj.name` runs `_Descriptor.__get__(descriptor, obj, type(obj))`.  The read is written out as the
        property it amounts to (the descriptor is built, told its name, and asked), and analysed like a hand-written
        one.  Not done when the descriptor also takes writes (`__set__`) and the attribute is assigned somewhere: then
        reads and writes go through state the descriptor keeps, which is not followed."""
        for m in list(self.modules.values()):
            for k in list(m.classes.values()):
                for attr, node in list(k.class_attrs.items()):
                    if not (isinstance(node, ast.Call) and isinstance(node.func, (ast.Name, ast.Attribute))) or attr in k.methods:
                        continue
                    K = self.resolve_class(m, node.func)
                    if K is None or not K.name.startswith("_") or self.find_method(K, "__get__")[1] is None or \
                            self.ext_bases(K) or any(isinstance(a, ast.Starred) for a in node.args):
                        continue
                    assigned = False
                    for c in self.all_classes():
                        if k in self.mro(c) and attr in self.instance_attrs(c):
                            assigned = True
                    if assigned and self.find_method(K, "__set__")[1] is not None:
                        continue
                    tell = f"    descriptor.__set_name__(type(self), {attr!r})\n" if self.find_method(K, "__set_name__")[1] else ""
                    src = (f"@property\ndef {attr}(self):\n    descriptor = {ast.unparse(node)}\n{tell}"
                           f"    return descriptor.__get__(self, type(self))\n")
                    try:
                        fn = ast.parse(src).body[0]
                    except SyntaxError:
                        continue
                    for sub in ast.walk(fn):
                        if isinstance(sub, (ast.expr, ast.stmt, ast.arg, ast.keyword)):
                            ast.copy_location(sub, node)
                            sub.end_lineno = getattr(node, "end_lineno", node.lineno)
                    k.methods[attr] = fn
                    del k.class_attrs[attr]
                    self.fn_module[id(fn)] = m

    def _synthesise_dataclass_inits(self):
        """A mutable @dataclass gets the `__init__` the decorator would write: one parameter per field (those of base
        dataclasses first; `field(init=False)` ones excepted), each stored on the instance, defaults and default
        factories applied, then `__post_init__` with the InitVar arguments.  The constructor is then analysed like
        a hand-written one."""
        for m in list(self.modules.values()):
            for K in list(m.classes.values()):
                opts = self._dataclass_options(K)
                if opts is None or K.record_fields is not None or "__init__" in K.methods:
                    continue
                if any(isinstance(v, ast.Constant) and v.value is False for k, v in opts.items() if k == "init"):
                    continue
                fields = {}
                ok = True
                for B in reversed(self.mro(K)):
                    if self._dataclass_options(B) is None:
                        continue
                    for n in B.node.body:
                        if not (isinstance(n, ast.AnnAssign) and isinstance(n.target, ast.Name)):
                            continue
                        ann = ast.unparse(n.annotation)
                        if ann.split("[")[0] in ("ClassVar", "typing.ClassVar"):
                            continue
                        if n.value is not None and not isinstance(n.value, ast.Constant) and B.module is not K.module:
                            ok = False          # the default is an expression of another module
                        fields[n.target.id] = (ann, n.value)
                if not ok:
                    continue
                params, body, initvars = [], [], []
                seen_default = False
                kw_only = False
                for name, (ann, value) in fields.items():
                    if ann.split("[")[0] in ("KW_ONLY", "dataclasses.KW_ONLY"):
                        kw_only = True
                        continue
                    initvar = ann.split("[")[0] in ("InitVar", "dataclasses.InitVar")
                    init, default, factory = True, None, None
                    if isinstance(value, ast.Call) and ast.unparse(value.func) in ("field", "dataclasses.field"):
                        for k in value.keywords:
                            if k.arg == "init" and isinstance(k.value, ast.Constant):
                                init = bool(k.value.value)
                            elif k.arg == "default":
                                default = ast.unparse(k.value)
                            elif k.arg == "default_factory":
                                factory = ast.unparse(k.value)
                    elif value is not None:
                        default = ast.unparse(value)
                    if init:
                        if default is not None:
                            params.append(f"{name}={default}")
                        elif factory is not None:
                            params.append(f"{name}=__dataclass_MISSING__")
                        else:
                            if seen_default and not kw_only:
                                ok = False
                            params.append(name)
                        seen_default = seen_default or default is not None or factory is not None
                        if initvar:
                            initvars.append(name)
                        elif factory is not None:
                            body.append(f"self.{name} = ({factory})() if {name} is __dataclass_MISSING__ else {name}")
                        else:
                            body.append(f"self.{name} = {name}")
                    elif default is not None:
                        body.append(f"self.{name} = {default}")
                    elif factory is not None:
                        body.append(f"self.{name} = ({factory})()")
                if not ok:
                    continue
                if self.find_method(K, "__post_init__")[1] is not None:
                    body.append(f"self.__post_init__({', '.join(initvars)})")
                src = f"def __init__(self, {', '.join(params)}):\n" + "".join(f"    {b}\n" for b in body or ["pass"])
                try:
                    fn = ast.parse(src).body[0]
                except SyntaxError:
                    continue
                line = K.node.lineno
                for n in ast.walk(fn):
                    if hasattr(n, "lineno"):
                        n.lineno = n.end_lineno = line
                        n.col_offset = getattr(n, "col_offset", 0)
                K.methods["__init__"] = fn
                fn._synthetic = True
                self.fn_module[id(fn)] = m

    def _apply_class_hooks(self):
        """`__init_subclass__` hooks that wrap methods of every subclass (`cls.update = deco(cls.__dict__['update'])`,
        also via a local name or setattr with a constant name, under tests of whether the subclass defines the method):
        the wrapper becomes the outermost decorator of the method in every subclass that defines it.  A hook that
        writes to the class in any other way is not followed: the methods of its subclasses are then undecided."""
        for m in list(self.modules.values()):
            for B in list(m.classes.values()):
                hook = B.methods.get("__init_subclass__")
                if hook is None or not hook.args.args:
                    continue
                me = hook.args.args[0].arg
                wraps, poison = [], None
                for n in ast.walk(hook):
                    # a class-level container filled while subclasses are created (a registry): what it holds depends on
                    # which classes exist -- reads of it are not followed
                    if isinstance(n, ast.Call) and isinstance(n.func, ast.Attribute) and isinstance(n.func.value, ast.Attribute) \
                            and isinstance(n.func.value.value, ast.Name) and \
                            n.func.attr in ("append", "add", "update", "setdefault", "insert", "extend", "appendleft", "__setitem__"):
                        self.registry_attrs.add(n.func.value.attr)
                    if isinstance(n, ast.Subscript) and isinstance(n.ctx, (ast.Store, ast.Del)) and \
                            isinstance(n.value, ast.Attribute) and isinstance(n.value.value, ast.Name):
                        self.registry_attrs.add(n.value.attr)
                for n in ast.walk(hook):
                    target = None
                    if isinstance(n, ast.Assign) and len(n.targets) == 1 and isinstance(n.targets[0], ast.Attribute) and \
                            isinstance(n.targets[0].value, ast.Name) and n.targets[0].value.id == me:
                        target, value = n.targets[0].attr, n.value
                    elif isinstance(n, ast.Call) and isinstance(n.func, ast.Name) and n.func.id == "setattr" and n.args and \
                            isinstance(n.args[0], ast.Name) and n.args[0].id == me:
                        if len(n.args) == 3 and isinstance(n.args[1], ast.Constant) and isinstance(n.args[1].value, str):
                            target, value = n.args[1].value, n.args[2]
                        else:
                            poison = f"setattr on the class with a computed name at {m.path}:{n.lineno}"
                    elif isinstance(n, (ast.AugAssign, ast.Delete)) and any(
                            isinstance(x, ast.Attribute) and isinstance(x.value, ast.Name) and x.value.id == me and
                            isinstance(x.ctx, (ast.Store, ast.Del)) for x in ast.walk(n)):
                        poison = f"class attribute rewritten at {m.path}:{n.lineno}"
                    if target is None:
                        continue
                    if isinstance(value, ast.Call) and len(value.args) == 1 and not value.keywords and \
                            isinstance(value.func, (ast.Name, ast.Attribute, ast.Call)):
                        wraps.append((target, value.func, n.lineno))
                    else:
                        poison = f"{B.name}.__init_subclass__ rebinds {target} at {m.path}:{n.lineno}"
                if not wraps and poison is None:
                    continue
                subs = [c for mod in self.modules.values() for c in mod.classes.values() if c is not B]
                for S in subs:
                    # bases are resolved: walk them
                    seen, todo, is_sub = set(), list(S.bases), False
                    while todo:
                        b = todo.pop()
                        if b is B:
                            is_sub = True
                            break
                        if isinstance(b, ClassInfo) and b.qual not in seen:
                            seen.add(b.qual)
                            todo.extend(b.bases)
                    if not is_sub:
                        continue
                    if poison is not None:
                        self.class_hooks[S.qual] = poison
                        continue
                    for name, deco, line in wraps:
                        fn = S.methods.get(name)
                        if fn is None:
                            continue
                        d = copy.deepcopy(deco)
                        for x in ast.walk(d):
                            if hasattr(x, "lineno"):
                                x.lineno = x.end_lineno = line
                        d._module = m               # names in the hook are names of the module that defines it
                        fn.decorator_list = [d] + list(fn.decorator_list)

    HARMLESS_CLASS_DECORATORS = {"dataclass", "dataclasses.dataclass", "functools.total_ordering", "total_ordering",
                                 "typing.final", "final", "typing.runtime_checkable", "runtime_checkable"}

    def _dynamic_features(self):
        """Language features that change what attribute access, instance creation or a class body mean and that the
        engine does not follow: a class using one (and its subclasses) is not analysed -- its methods are undecided
        rather than read as if the feature were not there."""
        def poison(K, why):
            self.class_hooks.setdefault(K.qual, why)
        for m in self.modules.values():
            for K in m.classes.values():
                node = K.node
                for d in node.decorator_list:
                    name = ast.unparse(d.func if isinstance(d, ast.Call) else d)
                    if name not in self.HARMLESS_CLASS_DECORATORS:
                        poison(K, f"class decorator @{name} at {m.path}:{node.lineno} may rewrite the class")
                for kw in node.keywords:
                    if kw.arg == "metaclass" and ast.unparse(kw.value) not in ("abc.ABCMeta", "ABCMeta", "type"):
                        poison(K, f"metaclass {ast.unparse(kw.value)} at {m.path}:{node.lineno}")
                for special in ("__getattribute__", "__setattr__", "__delattr__", "__new__"):
                    if special in K.methods and K.record_fields is None:
                        poison(K, f"{K.name}.{special} at {m.path}:{K.methods[special].lineno} changes what attribute access / "
                                  f"instance creation means")
                for mname, fn in K.methods.items():
                    if not fn.args.args or mname in ("__getstate__", "__setstate__", "__deepcopy__", "__copy__", "__reduce__",
                                                     "__reduce_ex__"):
                        continue
                    me = fn.args.args[0].arg
                    for n in ast.walk(fn):
                        if isinstance(n, ast.Attribute) and isinstance(n.value, ast.Name) and n.value.id == me and \
                                n.attr in ("__class__", "__dict__") and isinstance(n.ctx, ast.Store):
                            poison(K, f"{K.name}.{mname} assigns self.{n.attr} at {m.path}:{n.lineno}")
                        if isinstance(n, ast.Call) and isinstance(n.func, ast.Attribute) and n.func.attr in ("update", "clear", "pop", "setdefault") and \
                                ast.unparse(n.func.value) in (f"{me}.__dict__", f"vars({me})"):
                            poison(K, f"{K.name}.{mname} rewrites the instance dict at {m.path}:{n.lineno}")
                        if isinstance(n, ast.Subscript) and isinstance(n.ctx, (ast.Store, ast.Del)) and \
                                ast.unparse(n.value) in (f"{me}.__dict__", f"vars({me})"):
                            poison(K, f"{K.name}.{mname} writes the instance dict at {m.path}:{n.lineno}")
            # methods patched onto a package class from outside its body
            for n in ast.walk(m.tree):
                target = None
                if isinstance(n, ast.Assign) and len(n.targets) == 1 and isinstance(n.targets[0], ast.Attribute) and \
                        isinstance(n.targets[0].value, ast.Name):
                    target = n.targets[0].value.id
                elif isinstance(n, ast.Call) and isinstance(n.func, ast.Name) and n.func.id == "setattr" and n.args and \
                        isinstance(n.args[0], ast.Name):
                    target = n.args[0].id
                if isinstance(n, ast.Call) and isinstance(n.func, ast.Name) and n.func.id in ("exec", "eval") and \
                        self.resolve_name(m, n.func.id) is None:
                    for K in m.classes.values():
                        poison(K, f"{n.func.id}() at {m.path}:{n.lineno}")
                if target is None:
                    continue
                r = self.resolve_name(m, target)
                if r and r[0] == "class":
                    poison(r[1], f"attribute of {r[1].name} assigned from outside the class body at {m.path}:{n.lineno}")

    def _base_name(self, m, b):
        d = self.dotted_of(m, b)
        return d or ast.unparse(b)

    def _index(self, m):
        pkg = m.name if m.is_pkg else m.name.rsplit(".", 1)[0]
        for n in m.tree.body:
            self._index_stmt(m, pkg, n)
        # function-local imports resolve names too (never overriding a module-level binding)
        top = dict(m.imports)
        for n in ast.walk(m.tree):
            if isinstance(n, (ast.Import, ast.ImportFrom)) and n not in m.tree.body:
                saved = dict(m.imports)
                self._index_stmt(m, pkg, n)
                for k, v in saved.items():
                    if k in top:
                        m.imports[k] = v

    def _index_stmt(self, m, pkg, n):
        if isinstance(n, ast.Import):
            for a in n.names:
                m.imports[a.asname or a.name.split(".")[0]] = a.name if a.asname else a.name.split(".")[0]
        elif isinstance(n, ast.ImportFrom):
            base = n.module or ""
            if n.level:
                parts = pkg.split(".")
                parts = parts[: len(parts) - (n.level - 1)]
                base = ".".join(parts + ([n.module] if n.module else []))
            for a in n.names:
                m.imports[a.asname or a.name] = f"{base}.{a.name}"
        elif isinstance(n, ast.FunctionDef):
            m.functions[n.name] = n
        elif isinstance(n, ast.ClassDef):
            m.classes[n.name] = ClassInfo(m, n)
        elif isinstance(n, ast.Assign) and len(n.targets) == 1 and isinstance(n.targets[0], ast.Name):
            m.consts[n.targets[0].id] = n.value
        elif isinstance(n, ast.AnnAssign) and isinstance(n.target, ast.Name) and n.value is not None:
            m.consts[n.target.id] = n.value
        elif isinstance(n, (ast.Try, ast.If)):
            for sub in ast.iter_child_nodes(n):
                if isinstance(sub, ast.stmt):
                    self._index_stmt(m, pkg, sub)
                elif isinstance(sub, ast.ExceptHandler):
                    for s2 in sub.body:
                        self._index_stmt(m, pkg, s2)

    # -- name resolution -------------------------------------------------------------------------
    def resolve_dotted(self, dotted, _seen=None):
        """Follow re-exports: 'ixai.imputer.BaseImputer' -> ('class'|'func'|'module'|'const'|'ext', obj)."""
        _seen = _seen or set()
        if dotted in _seen:
            return ("ext", dotted)
        _seen.add(dotted)
        if dotted in self.modules:
            return ("module", self.modules[dotted])
        if "." in dotted:
            mod, name = dotted.rsplit(".", 1)
            if mod in self.modules:
                m = self.modules[mod]
                if name in m.classes:
                    return ("class", m.classes[name])
                if name in m.functions:
                    return ("func", (m, m.functions[name]))
                if name in m.imports:
                    return self.resolve_dotted(m.imports[name], _seen)
                if name in m.consts:
                    return ("const", (m, m.consts[name]))
        return ("ext", dotted)

    def resolve_name(self, module, name):
        if name in module.classes:
            return ("class", module.classes[name])
        if name in module.functions:
            return ("func", (module, module.functions[name]))
        if name in module.imports:
            return self.resolve_dotted(module.imports[name])
        if name in module.consts:
            return ("const", (module, module.consts[name]))
        return None

    def dotted_of(self, module, expr):
        """Dotted external name of an expression like np.random.permutation, else None."""
        parts = []
        while isinstance(expr, ast.Attribute):
            parts.append(expr.attr)
            expr = expr.value
        if isinstance(expr, ast.Name):
            r = self.resolve_name(module, expr.id)
            if r and r[0] == "ext":
                return ".".join([r[1]] + parts[::-1])
            if r and r[0] == "module":
                return ".".join([r[1].name] + parts[::-1])
        return None

    def resolve_class(self, module, expr):
        if isinstance(expr, ast.Name):
            r = self.resolve_name(module, expr.id)
            if r and r[0] == "class":
                return r[1]
        if isinstance(expr, ast.Attribute):
            d = self.dotted_of(module, expr)
            if d:
                r = self.resolve_dotted(d)
                if r[0] == "class":
                    return r[1]
        return None

    def mro(self, cls):
        out, todo = [], [cls]
        while todo:
            c = todo.pop(0)
            if isinstance(c, ClassInfo) and c not in out:
                out.append(c)
                todo.extend(c.bases)
        return out

    def ext_bases(self, cls):
        return [b for c in self.mro(cls) for b in c.bases if not isinstance(b, ClassInfo)]

    def find_method(self, cls, name, after=None):
        chain = self.mro(cls)
        if after is not None and after in chain:
            chain = chain[chain.index(after) + 1:]
        for c in chain:
            if name in c.methods:
                return c, c.methods[name]
        return None, None

    def subclasses(self, base, strict=False):
        out = [c for m in self.modules.values() for c in m.classes.values() if base in self.mro(c)]
        return [c for c in out if c is not base] if strict else out

    def dict_record_ok(self, root, fld):
        """May `self.<fld>` (a dict display with constant keys built by the constructor) be treated as a fixed set of
        named slots?  Yes when, in all classes of the hierarchy, the attribute is assigned only in constructors and
        every other use is a subscription `self.<fld>[...]`, directly or through a local name used only that way."""
        key = (root.qual, fld)
        if key in self._dict_record_ok:
            return self._dict_record_ok[key]
        ok = True
        classes = list(self.mro(root)) + [c for c in self.subclasses(root) if c not in self.mro(root)]
        for k in classes:
            for fn in ast.walk(k.node):
                if not isinstance(fn, ast.FunctionDef):
                    continue
                parents = {}
                for n in ast.walk(fn):
                    for ch in ast.iter_child_nodes(n):
                        parents[ch] = n
                aliases = set()
                for n in ast.walk(fn):
                    if isinstance(n, ast.Attribute) and n.attr == fld:
                        par = parents.get(n)
                        if isinstance(n.ctx, (ast.Store, ast.Del)):
                            ok = ok and fn.name == "__init__" and isinstance(n.ctx, ast.Store)
                        elif isinstance(par, ast.Subscript) and par.value is n:
                            pass
                        elif isinstance(par, ast.Assign) and par.value is n and len(par.targets) == 1 and \
                                isinstance(par.targets[0], ast.Name):
                            aliases.add(par.targets[0].id)
                        else:
                            ok = False
                    if isinstance(n, ast.Call) and isinstance(n.func, ast.Name) and n.func.id in ("getattr", "setattr", "vars"):
                        ok = False
                for a in aliases:
                    stores = [n for n in ast.walk(fn) if isinstance(n, ast.Name) and n.id == a and isinstance(n.ctx, ast.Store)]
                    loads = [n for n in ast.walk(fn) if isinstance(n, ast.Name) and n.id == a and isinstance(n.ctx, ast.Load)]
                    if len(stores) != 1 or any(not (isinstance(parents.get(n), ast.Subscript) and parents[n].value is n)
                                               for n in loads):
                        ok = False
        self._dict_record_ok[key] = ok
        return ok

    def instance_attrs(self, cls):
        """Names assigned as attributes of an object (`<name>.attr = ...`, setattr) anywhere in the classes of the MRO."""
        key = cls.qual
        if key not in self._instance_attrs:
            out = set()
            for k in self.mro(cls):
                for n in ast.walk(k.node):
                    if isinstance(n, ast.Attribute) and isinstance(n.ctx, (ast.Store, ast.Del)):
                        out.add(n.attr)
                    elif isinstance(n, ast.Call) and isinstance(n.func, ast.Name) and n.func.id == "setattr" and \
                            len(n.args) >= 2 and isinstance(n.args[1], ast.Constant):
                        out.add(n.args[1].value)
            self._instance_attrs[key] = out
        return self._instance_attrs[key]

    def cls(self, qual):
        mod, name = qual.rsplit(".", 1)
        if mod not in self.modules or name not in self.modules[mod].classes:
            raise Unsupported(f"anchor class vanished: {qual}")
        return self.modules[mod].classes[name]

    def all_classes(self):
        return [c for m in self.modules.values() for c in m.classes.values()]

    def find_class(self, name):
        """Find a class by simple name anywhere in the package (unique), else None."""
        found = [c for c in self.all_classes() if c.name == name]
        return found[0] if len(found) == 1 else None

    def default_value(self, fn, expr):
        """Python value of a parameter default: a literal, or a module-level constant name bound to a literal."""
        if isinstance(expr, ast.Constant):
            return expr.value
        m = self.fn_module.get(id(fn))
        seen = 0
        while m is not None and isinstance(expr, ast.Name) and seen < 5:
            seen += 1
            r = self.resolve_name(m, expr.id)
            if not r or r[0] != "const":
                break
            m, expr = r[1]
            if isinstance(expr, ast.Constant):
                return expr.value
        return ("?", ast.unparse(expr))

    def find_function(self, name):
        """Qualified name of the module-level function with this simple name (unique in the package), else None."""
        found = [f"{m.name}.{name}" for m in self.modules.values() if name in m.functions]
        return found[0] if len(found) == 1 else None

    def func(self, qual):
        mod, name = qual.rsplit(".", 1)
        if mod not in self.modules or name not in self.modules[mod].functions:
            raise Unsupported(f"anchor function vanished: {qual}")
        return self.modules[mod], self.modules[mod].functions[name]

    def all_functions(self, skip=("ixai.visualization",)):
        """(module, class-or-None, name, node) for every function and method."""
        out = []
        for m in self.modules.values():
            if any(m.name.startswith(s) for s in skip):
                continue
            for n, f in m.functions.items():
                out.append((m, None, n, f))
            for c in m.classes.values():
                for n, f in c.methods.items():
                    out.append((m, c, n, f))
        return out

    # -- summaries --------------------------------------------------------------------------------
    def summarise(self, cls, method, view=None):
        """Summary of `method` looked up on `cls` (a ClassInfo or qualified name); `view` = the
        concrete class through which self.m() calls are resolved (defaults to cls)."""
        if isinstance(cls, str):
            cls = self.cls(cls)
        view = view or cls
        key = (view.qual, cls.qual, method)
        if key not in self._summaries:
            c, m = self.find_method(cls, method)
            if m is None:
                raise Unsupported(f"anchor method vanished: {cls.qual}.{method}")
            s = Summariser(self, c.module, view, m, owner=c)
            self._summaries[key] = s.run()
        return self._summaries[key]

    def summarise_func(self, qual):
        if qual not in self._summaries:
            m, f = self.func(qual)
            self._summaries[qual] = Summariser(self, m, None, f).run()
        return self._summaries[qual]


# ------------------------------------------------------------------------------------------------
# terms
# ------------------------------------------------------------------------------------------------
PURE_BUILTINS = {"len", "tuple", "sum", "max", "min", "float", "int", "abs", "str", "range", "enumerate", "zip",
                 "isinstance", "hasattr", "round", "iter", "sorted", "bool", "type", "repr", "any", "all",
                 "reversed", "getattr", "id", "hash", "next", "map", "filter", "issubclass", "callable", "print",
                 "frozenset", "divmod", "pow"}
FRESH_BUILTINS = {"set", "list", "dict"}
EXC_NAMES = {"ValueError", "NotImplementedError", "KeyError", "AttributeError", "TypeError", "Exception",
             "ImportError", "UserWarning", "DeprecationWarning", "ZeroDivisionError", "IndexError",
             "RuntimeError", "BaseException", "StopIteration", "AssertionError", "FloatingPointError",
             "ArithmeticError", "OverflowError", "LookupError", "RuntimeWarning", "Warning"}
PURE_EXT = {"numpy.exp": "exp", "numpy.log": "log", "numpy.floor": "floor", "numpy.sqrt": "sqrt",
            "math.exp": "exp", "math.log": "log", "math.floor": "floor", "math.sqrt": "sqrt",
            "numpy.mean": "mean", "numpy.asarray": "asarray", "numpy.array": "asarray",
            "numpy.nanmean": "nanmean", "numpy.nanvar": "nanvar", "numpy.nanstd": "nanstd",
            "numpy.round": "round", "numpy.abs": "abs", "numpy.sum": "sum", "math.fsum": "sum",
            "numpy.median": "median", "numpy.max": "max", "numpy.min": "min", "numpy.var": "var",
            "numpy.std": "std", "numpy.nansum": "nansum", "numpy.power": "pow", "math.pow": "pow",
            "statistics.mean": "mean", "statistics.fmean": "mean", "numpy.average": "mean",
            "numpy.float64": "float", "numpy.isnan": "isnan", "math.isnan": "isnan", "numpy.isfinite": "isfinite",
            "math.isfinite": "isfinite", "numpy.full": "full", "numpy.zeros": "zeros", "numpy.ones": "ones",
            "numpy.empty": "empty", "numpy.float32": "float32", "numpy.float16": "float16",
            "numpy.square": "square", "math.fabs": "abs", "numpy.log1p": "log1p", "math.log1p": "log1p",
            "itertools.repeat": "repeat", "itertools.count": "count", "numpy.ceil": "ceil", "math.ceil": "ceil", "numpy.isclose": "isclose", "math.isclose": "isclose",
            "math.prod": "prod", "numpy.prod": "prod", "math.trunc": "trunc"}
OPERATOR_EXT = {"operator.add": "+", "operator.sub": "-", "operator.mul": "*", "operator.truediv": "/",
                "operator.pow": "**", "operator.mod": "%", "operator.floordiv": "//"}
OPERATOR_CMP = {"operator.lt": "<", "operator.le": "<=", "operator.gt": ">", "operator.ge": ">=",
                "operator.eq": "==", "operator.ne": "!=", "operator.is_": "is", "operator.is_not": "is not"}
SET_ALGEBRA = {"difference": "-", "union": "|", "intersection": "&", "symmetric_difference": "^"}
COPY_EXT = {"copy.deepcopy": "deepcopy", "copy.copy": "copy"}
IDENTITY_EXT = {"tqdm.tqdm", "tqdm.auto.tqdm", "tqdm.notebook.tqdm"}
MUTATORS = {"append", "extend", "insert", "pop", "popleft", "remove", "clear", "update", "add", "discard",
            "setdefault", "popitem", "sort", "reverse", "appendleft", "extendleft", "rotate", "fill",
            "difference_update", "intersection_update", "symmetric_difference_update", "__setitem__",
            "__delitem__", "put", "resize"}
BINOPS = {ast.Add: "+", ast.Sub: "-", ast.Mult: "*", ast.Div: "/", ast.Pow: "**", ast.Mod: "%",
          ast.FloorDiv: "//", ast.BitOr: "|", ast.BitAnd: "&", ast.BitXor: "^", ast.MatMult: "@",
          ast.LShift: "<<", ast.RShift: ">>"}
CMPOPS = {ast.Eq: "==", ast.NotEq: "!=", ast.Lt: "<", ast.LtE: "<=", ast.Gt: ">", ast.GtE: ">=",
          ast.Is: "is", ast.IsNot: "is not", ast.In: "in", ast.NotIn: "not in"}


_INV = {"==": "!=", "!=": "==", "<": ">=", ">=": "<", ">": "<=", "<=": ">", "is": "is not", "is not": "is",
        "in": "not in", "not in": "in"}
_MIRROR = {"==": "==", "!=": "!=", "<": ">", ">": "<", "<=": ">=", ">=": "<=", "is": "is", "is not": "is not"}


def _gate_leaves(t):
    return _gate_leaves(t[2]) + _gate_leaves(t[3]) if isinstance(t, tuple) and t and t[0] == "gate" else [t]


class _Missing:
    def __repr__(self):
        return "MISSING"


MISSING = ("const", _Missing())     # "no argument given" in a synthesised dataclass constructor; nothing else is it


def cmp_term(op, a, b):
    """Canonical comparison: a constant operand goes to the right; for symmetric operators the operands
    are ordered, so `1 <= x` is `x >= 1` and `a == b` is `b == a`."""
    if op in ("is", "is not") and (a == MISSING or b == MISSING):
        other = b if a == MISSING else a
        if other == MISSING:
            return ("const", op == "is")
        if isinstance(other, tuple) and other and other[0] not in ("param", "default", "gate", "mu", "eta"):
            return ("const", op == "is not")
    if op in ("is", "is not", "==", "!=") and isinstance(b, tuple) and len(b) == 2 and b[0] == "const" and \
            isinstance(b[1], bool) and _is_bool(a):
        # comparing a truth value with True / False
        same = (op in ("is", "==")) == b[1]
        return a if same else negate_const(a)
    if op in ("is", "is not", "==", "!=") and isinstance(a, tuple) and isinstance(b, tuple) and a and b:
        if a[0] == "enum" and b[0] == "enum" and (op in ("is", "is not") or a[4] == "enum" or b[4] == "enum"):
            same = a[1:3] == b[1:3]             # members are singletons
            return ("const", same if op in ("is", "==") else not same)
        for x, y in ((a, b), (b, a)):
            if x[0] == "gate" and y[0] == "enum" and all(l[0] == "enum" for l in _gate_leaves(x)):
                return gate(x[1], cmp_term(op, x[2], y), cmp_term(op, x[3], y))
            if x[0] == "enum" and y[0] == "const" and op in ("==", "!=") and x[4] in ("str", "int", "flag") and x[3] is not None:
                eq = x[3][1] == y[1]
                return ("const", eq if op == "==" else not eq)
            if x[0] == "enum" and y[0] == "const" and op in ("==", "!=") and x[4] == "enum" and y[1] is not None:
                return ("const", op == "!=")        # a plain Enum member never equals a plain value
    if op in ("==", "!=") and isinstance(a, tuple) and isinstance(b, tuple) and a and b and b[0] == "const" and \
            isinstance(b[1], (int, str)) and not isinstance(b[1], bool):
        def const_leaves(t):
            return (t[0] == "const" and isinstance(t[1], (int, str)) and not isinstance(t[1], bool)) or \
                (t[0] == "gate" and const_leaves(t[2]) and const_leaves(t[3]))
        if a[0] == "gate" and const_leaves(a):
            # [c ? 1 : 2] == 1: decided arm by arm
            def fold(t):
                if t[0] == "gate":
                    return gate(t[1], fold(t[2]), fold(t[3]))
                return ("const", (t[1] == b[1]) if op == "==" else (t[1] != b[1]))
            return fold(a)
    if op in ("in", "not in") and isinstance(b, tuple) and b:
        items = b[1] if (b[0] == "tuple" and len(b) == 2) else (b[3] if b[0] == "new" and b[2] in ("list", "set", "frozenset", "tuple") else None)
        if items is not None and 1 <= len(items) <= 4 and all(isinstance(i, tuple) and i and i[0] == "const" and
                                                               isinstance(i[1], (str, int)) for i in items):
            # x in ('a', 'b') is x == 'a' or x == 'b'
            parts = tuple(cmp_term("==" if op == "in" else "!=", a, i) for i in items)
            return parts[0] if len(parts) == 1 else (("or", parts) if op == "in" else ("and", parts))
    if a == b and op in ("==", "!=", "<", "<=", ">", ">=") and isinstance(a, tuple) and a and a[0] == "fn" and a[1] == "len":
        return ("const", op in ("==", "<=", ">="))        # a length compared with itself
    if op in ("is", "is not") and b == ("const", None):
        isnone = _is_none(a)
        if isnone is not None:
            return isnone if op == "is" else negate_const(isnone)
    if op in ("<", "<=", ">", ">=", "==", "!=") and b in (("const", 0), ("const", 0.0)) and isinstance(a, tuple) and \
            len(a) == 4 and a[0] == "op" and a[1] == "-":
        return cmp_term(op, a[2], a[3])         # x - y > 0  is  x > y
    if op in _MIRROR:
        a_const = isinstance(a, tuple) and a and a[0] == "const"
        b_const = isinstance(b, tuple) and b and b[0] == "const"
        if a_const and not b_const:
            op, a, b = _MIRROR[op], b, a
        elif op in ("==", "!=", "is", "is not") and not a_const and not b_const and repr(b) < repr(a):
            a, b = b, a
    return ("cmp", op, a, b)


_NEVER_NONE = ("tuple", "new", "comp", "flat", "op", "draw", "cmp", "fstr", "str", "partial", "closure", "lambda", "enum",
               "getter", "methodcaller", "self", "outer", "owned")
_VALUE_FUNCTIONS = {"exp", "log", "floor", "ceil", "sqrt", "abs", "len", "int", "float", "sum", "max", "min", "str", "bool",
                    "round", "range", "enumerate", "zip", "tuple", "sorted", "reversed", "mean", "pow", "iter", "repeat", "count"}
_METHOD_NAMES = {"append", "extend", "insert", "pop", "popleft", "appendleft", "remove", "clear", "update", "add",
                 "discard", "get", "keys", "values", "items", "copy", "setdefault", "sort", "index", "count"}


def _is_none(a):
    """Condition under which the term is None, when that is decided by its shape (constants, fresh
    objects, arithmetic results and selections between such); None if the shape does not decide it."""
    if not (isinstance(a, tuple) and a):
        return None
    if a[0] == "const":
        return ("const", a[1] is None)
    if a[0] in _NEVER_NONE:
        return ("const", False)
    if a[0] == "fn" and a[1] in _VALUE_FUNCTIONS:
        return ("const", False)
    if a[0] == "attr" and a[2] in _METHOD_NAMES:
        return ("const", False)         # a bound container method
    if a[0] == "global" and not a[1].startswith("?"):
        return ("const", False)         # a function / class / module
    if a[0] == "gate":
        x, y = _is_none(a[2]), _is_none(a[3])
        if x is None or y is None:
            return None
        if x == y:
            return x
        if x == ("const", True) and y == ("const", False):
            return a[1]
        if x == ("const", False) and y == ("const", True):
            return negate(a[1])
        return gate(a[1], x, y)
    return None


def _is_bool(c):
    """The term is a truth value by construction (comparison, negation, connective of such, True/False)."""
    if not (isinstance(c, tuple) and c):
        return False
    if c[0] == "const":
        return len(c) == 2 and isinstance(c[1], bool)
    if c[0] in ("cmp", "not"):
        return True
    if c[0] in ("and", "or"):
        return all(_is_bool(x) for x in c[1])
    return False


def truth(c):
    """The condition `bool(c)` for a selection with a constant arm: `x if c else None` is true iff c and x."""
    if isinstance(c, tuple) and c and c[0] == "gate":
        ta, tb = const_truth(c[2]), const_truth(c[3])

        def both(a, b):
            return a if b == ("const", True) else b if b == ("const", False) else ("and", (a, b))

        def either(a, b):
            return a if b == ("const", False) else b if b == ("const", True) else ("or", (a, b))
        if tb is False:
            return both(c[1], truth(c[2]))
        if tb is True:
            return either(negate(c[1]), truth(c[2]))
        if ta is False:
            return both(negate(c[1]), truth(c[3]))
        if ta is True:
            return either(c[1], truth(c[3]))
    if isinstance(c, tuple) and len(c) == 5 and c[0] == "enum" and const_truth(c) is not None:
        return ("const", const_truth(c))
    return c


def negate_const(c):
    if isinstance(c, tuple) and c and c[0] == "const" and isinstance(c[1], bool):
        return ("const", not c[1])
    return negate(c)


def const_truth(c):
    """True/False for a condition that is a constant, else None."""
    if isinstance(c, tuple) and len(c) == 5 and c[0] == "enum":
        if c[4] == "enum":
            return True                 # members of a plain Enum are always true
        if c[3] is not None and c[3][0] == "const":
            return bool(c[3][1])
        return None
    if isinstance(c, tuple) and len(c) == 2 and c[0] == "const" and (c[1] is None or isinstance(c[1], (bool, int, float, str))):
        return bool(c[1])
    return None


def negate(c):
    """Logical negation; comparisons are negated by inverting their operator (so `not (a != b)` is
    `a == b`), double negations cancel."""
    if isinstance(c, tuple) and c:
        if c[0] == "not":
            return c[1]
        if c[0] == "cmp" and c[1] in _INV:
            return ("cmp", _INV[c[1]], c[2], c[3])
    return ("not", c)


_NEG_OPS = {"!=": "==", "is not": "is", "not in": "in"}


def gate(cond, a, b):
    """Value after a branch; the condition is kept in positive polarity (`x is not None ? a : b` is
    `x is None ? b : a`), so both spellings of one selection are one term."""
    if a == b:
        return a
    if isinstance(cond, tuple) and cond:
        if cond[0] == "const" and len(cond) == 2 and isinstance(cond[1], bool):
            return a if cond[1] else b
        if _is_bool(a) and _is_bool(b) and cond[0] not in ("const",):
            # a selection between truth values is a propositional formula
            T, F = ("const", True), ("const", False)
            if a == T:
                return cond if b == F else ("or", (cond, b))
            if a == F:
                return negate(cond) if b == T else ("and", (negate(cond), b))
            if b == T:
                return ("or", (negate(cond), a))
            if b == F:
                return ("and", (cond, a))
        if cond[0] == "not":
            return gate(cond[1], b, a)
        if cond[0] == "cmp" and cond[1] in _NEG_OPS:
            return ("gate", ("cmp", _NEG_OPS[cond[1]], cond[2], cond[3]), b, a)
    return ("gate", cond, a, b)


def tget(v, i):
    """Element i of a tuple-valued term, simplified through tuple displays and gates."""
    if isinstance(v, tuple) and v:
        if v[0] == "tuple" and isinstance(i, int) and 0 <= i < len(v[1]):
            return v[1][i]
        if v[0] == "gate":
            return gate(v[1], tget(v[2], i), tget(v[3], i))
    return ("tget", v, i)


def _zip_displays(args, depth=0):
    """zip of tuple displays (or selections between displays): the display of the pairs, else None."""
    if all(a[0] == "tuple" and len(a) == 2 for a in args):
        n = min(len(a[1]) for a in args)
        return ("tuple", tuple(("tuple", tuple(a[1][i] for a in args)) for i in range(n)))
    if depth > 3:
        return None
    for k, a in enumerate(args):
        if a[0] == "gate":
            x = _zip_displays(args[:k] + (a[2],) + args[k + 1:], depth + 1)
            y = _zip_displays(args[:k] + (a[3],) + args[k + 1:], depth + 1)
            return gate(a[1], x, y) if x is not None and y is not None else None
    return None


def _concat(parts):
    out = None
    for p_ in parts:
        if p_ == ("const", ""):
            continue
        out = p_ if out is None else ("op", "+", out, p_)
    return out if out is not None else ("const", "")


def _format_percent(fmt, args):
    """'a%sb%s' % (x, y) as the concatenation the f-string f'a{x}b{y}' denotes (only %s / %d / %r / %%)."""
    import re
    pieces = re.split(r"(%[sdr%])", fmt)
    if "%" in "".join(p for p in pieces if not re.fullmatch(r"%[sdr%]", p)):
        return None
    parts, k = [], 0
    for p in pieces:
        if p == "%%":
            parts.append(("const", "%"))
        elif p in ("%s", "%d", "%r"):
            if k >= len(args):
                return None
            parts.append(("fn", "repr" if p == "%r" else "str", (args[k],)))
            k += 1
        elif p:
            parts.append(("const", p))
    return _concat(parts) if k == len(args) else None


def _format_braces(fmt, args, kwargs):
    """'a{}b{name}'.format(x, name=y) as a concatenation (plain / indexed / named fields without format spec)."""
    import string
    parts, auto = [], 0
    try:
        fields = list(string.Formatter().parse(fmt))
    except ValueError:
        return None
    for lit, field, spec, conv in fields:
        if lit:
            parts.append(("const", lit))
        if field is None:
            continue
        if spec or (conv not in (None, "s", "r")):
            return None
        if field == "":
            if auto >= len(args):
                return None
            v = args[auto]
            auto += 1
        elif field.isdigit():
            if int(field) >= len(args):
                return None
            v = args[int(field)]
        elif field.isidentifier() and field in kwargs:
            v = kwargs[field]
        else:
            return None
        parts.append(("fn", "repr" if conv == "r" else "str", (v,)))
    return _concat(parts)


MEMO_DECORATORS = ("cached_property", "functools.cached_property", "lru_cache", "functools.lru_cache", "cache",
                   "functools.cache")


def _walk_events(events):
    from .paths import walk
    return walk(events)


def _is_ns(t):
    return isinstance(t, tuple) and len(t) == 4 and t[0] == "new" and t[2] == "types.SimpleNamespace"


def _ns_key(t):
    site = t[1]
    return "%ns:" + ":".join(str(x) for x in site[1:3]) + ":" + "/".join(str(x) for x in site[3:-1]) + "."


def memoised(fn):
    """Name of the memoising decorator of a function definition, else None."""
    for d in fn.decorator_list:
        name = ast.unparse(d.func if isinstance(d, ast.Call) else d)
        if name in MEMO_DECORATORS:
            return name
    return None


KNOWN_DECORATORS = {"property", "staticmethod", "classmethod", "abstractmethod", "abc.abstractmethod",
                    "abc.abstractproperty", "typing.overload", "overload", "typing.final", "final",
                    "typing.override", "override", "typing_extensions.override", "typing_extensions.final",
                    "typing.no_type_check", "no_type_check",
                    "contextmanager", "contextlib.contextmanager", "functools.wraps", "wraps",
                    "dataclass", "dataclasses.dataclass"} | set(MEMO_DECORATORS)


def user_decorators(fn):
    """Decorators of a definition that are not part of the table of known ones, innermost first."""
    out = []
    for d in reversed(getattr(fn, "decorator_list", ())):
        name = ast.unparse(d.func if isinstance(d, ast.Call) else d)
        if name in KNOWN_DECORATORS or name.endswith((".setter", ".getter", ".deleter")):
            continue
        out.append(d)
    return out


def forwarding_decorator(node):
    """Is this function a decorator that only forwards: `def deco(fn): [@wraps(fn)] def w(*a, **k): return fn(*a, **k); return w`?"""
    if not isinstance(node, ast.FunctionDef) or len(node.args.args) != 1:
        return False
    fn_name = node.args.args[0].arg
    body = [s for s in node.body if not (isinstance(s, ast.Expr) and isinstance(s.value, ast.Constant))]
    if len(body) != 2 or not isinstance(body[0], ast.FunctionDef) or not isinstance(body[1], ast.Return):
        return False
    w = body[0]
    if not (isinstance(body[1].value, ast.Name) and body[1].value.id == w.name):
        return False
    if not (w.args.vararg and w.args.kwarg and not w.args.args):
        return False
    wb = [s for s in w.body if not (isinstance(s, ast.Expr) and isinstance(s.value, ast.Constant))]
    if len(wb) != 1 or not isinstance(wb[0], ast.Return) or not isinstance(wb[0].value, ast.Call):
        return False
    c = wb[0].value
    return isinstance(c.func, ast.Name) and c.func.id == fn_name and len(c.args) == 1 and \
        isinstance(c.args[0], ast.Starred) and isinstance(c.args[0].value, ast.Name) and \
        c.args[0].value.id == w.args.vararg.arg and len(c.keywords) == 1 and c.keywords[0].arg is None and \
        isinstance(c.keywords[0].value, ast.Name) and c.keywords[0].value.id == w.args.kwarg.arg


def memo_value(fn, value):
    """What a call of a memoised function yields: the value computed by the first call with these arguments
    if there was one (it is not recomputed when the state it was computed from has changed), else `value`."""
    if memoised(fn) is None:
        return value
    return ("gate", ("fn", "cache_hit", (("const", fn.name),)), ("field0", f"#memo:{fn.name}"), value)


def subst(t, mapping):
    """Replace whole subterms according to `mapping` (term -> term)."""
    if isinstance(t, tuple):
        if t in mapping:
            return mapping[t]
        return tuple(subst(x, mapping) for x in t)
    return t


def norm_comp(c):
    """One spelling for comprehensions that iterate `zip` displays:
       for (a, b) in zip(A, repeat(k))              ->  for a in A          with b := k
       for (a, b) in zip(A, (f(y) for y in B))      ->  for (a, y) in zip(A, B)   with b := f(y)
       for (k, v) in zip(d.keys(), d.values())      ->  for (k, v) in d.items()
    (the mapped generator must be condition-free; a dict is not modified between keys() and values())."""
    for _ in range(8):
        if not (isinstance(c, tuple) and c and c[0] == "comp"):
            return c
        kind, lid, it, key, val, conds = c[1:]
        el = ("elem", lid)
        if it[0] == "res" and it[2] in (".items", ".keys", ".values") and len(it[3]) == 1 and not it[4] and \
                it[3][0][0] == "comp" and it[3][0][1] == "dict" and not it[3][0][6] and it[3][0][4] == ("elem", it[3][0][2]):
            # iterating a dict display {k: v(k) for k in K}: the keys are K (a key listed twice keeps one entry, which
            # a dict / set built from the pairs does not see); only decided for dict and set results keyed by k
            d = it[3][0]
            inner_v = ("sub", d, el)            # the entry of the display under this key
            if it[2] == ".items":
                m = {("tget", el, 0): el, ("tget", el, 1): inner_v}
                whole = _uses_whole(el, (key, val, conds), m)
            elif it[2] == ".keys":
                m, whole = {}, False
            else:
                m, whole = {el: inner_v}, True
            keyed = kind in ("dict", "set") and (subst(key, m) == el if kind == "dict" else False)
            if not whole and keyed:
                c = ("comp", kind, lid, d[3]) + subst((key, val, conds), m)
                continue
        if it[0] == "comp" and it[1] == "gen" and it[4] is None and not it[6] and it[5][0] != "flat" and \
                not (isinstance(val, tuple) and val and val[0] == "flat"):
            # a comprehension over a lazily mapped sequence (a generator has this one consumer) maps the composition
            # over the source
            inner = relabel_loop(subst(it[5], {("elem", it[2]): el}), it[2], lid)
            c = ("comp", kind, lid, it[3]) + subst((key, val, conds), {el: inner})
            continue
        if it[0] == "fn" and it[1] == "zip" and len(it[2]) == 2:
            a, b = it[2]
            if b[0] == "fn" and b[1] == "repeat" and len(b[2]) == 1:
                m = {("tget", el, 0): el, ("tget", el, 1): b[2][0]}
                if not _uses_whole(el, (key, val, conds), m):
                    c = ("comp", kind, lid, a) + subst((key, val, conds), m)
                    continue
            if b[0] == "fn" and b[1] == "count":
                m = {("tget", el, 0): el}
                if not _uses_whole(el, (key, val, conds), m):      # zip(A, count()) with the counter unused
                    c = ("comp", kind, lid, a) + subst((key, val, conds), m)
                    continue
            if b[0] == "comp" and b[1] in ("gen", "list") and b[4] is None and not b[6] and b[5][0] != "flat":
                # what the inner generator evaluates per element is now evaluated per element of this comprehension
                inner = relabel_loop(subst(b[5], {("elem", b[2]): ("tget", el, 1)}), b[2], lid)
                m = {("tget", el, 1): inner}
                if not _uses_whole(el, (key, val, conds), {("tget", el, 0): None, ("tget", el, 1): None}):
                    c = ("comp", kind, lid, ("fn", "zip", (a, b[3]))) + subst((key, val, conds), m)
                    continue
            if a[0] == "res" and b[0] == "res" and a[2] == ".keys" and b[2] == ".values" and a[3] == b[3] and len(a[3]) == 1:
                c = ("comp", kind, lid, ("res", a[1], ".items", a[3], ())) + (key, val, conds)
                continue
            # zip(d, d.values()) / zip(d, list(d.values())) / zip(d.keys(), list(d.values())): the items of d
            vals_of = b[3][0] if (b[0] == "new" and b[2] == "list" and len(b[3]) == 1) else b
            keys_of = a[3][0] if (a[0] == "res" and a[2] == ".keys" and len(a[3]) == 1 and not a[4]) else a
            if vals_of[0] == "res" and vals_of[2] == ".values" and len(vals_of[3]) == 1 and not vals_of[4] and \
                    vals_of[3][0] == keys_of and keys_of[0] in ("res", "param", "field0"):
                c = ("comp", kind, lid, ("res", vals_of[1], ".items", vals_of[3], ())) + (key, val, conds)
                continue
        return c
    return c


def relabel_loop(t, old, new):
    """Rename a loop id in creation sites and draw nests (a value computed per iteration of `old` that is
    now computed per iteration of `new`)."""
    if isinstance(t, tuple):
        if t and t[0] == "L" and all(isinstance(x, int) for x in t[1:]):
            return tuple(new if x == old else x for x in t)
        if t and t[0] == "draw" and len(t) == 6:
            return t[:1] + tuple(relabel_loop(x, old, new) for x in t[1:5]) + (tuple(new if x == old else x for x in t[5]),)
        return tuple(relabel_loop(x, old, new) for x in t)
    return t


def _uses_whole(el, terms, parts):
    """Is the loop element used other than through the listed projections?"""
    def walk(t):
        if isinstance(t, tuple):
            if t in parts:
                return False
            if t == el:
                return True
            return any(walk(x) for x in t)
        return False
    return walk(terms)


def attr_of(v, name):
    """Attribute of a term, simplified through record displays (named tuples) and gates of them."""
    if isinstance(v, tuple) and v:
        if v[0] == "tuple" and len(v) == 3 and name in v[2][1:]:
            return v[1][v[2][1:].index(name)]
        if v[0] == "gate":
            a, b = attr_of(v[2], name), attr_of(v[3], name)
            if a[0] != "attr" or b[0] != "attr":
                return gate(v[1], a, b)
    return ("attr", v, name)


def record_names(v):
    """Component names of a record display, looked up through selections."""
    while isinstance(v, tuple) and v and v[0] == "gate":
        a = record_names(v[2])
        if a:
            return a
        v = v[3]
    if isinstance(v, tuple) and len(v) == 3 and v[0] == "tuple" and isinstance(v[2], tuple) and v[2][:1] == ("names",):
        return v[2][1:]
    return None


def assume(term, facts):
    """Simplify gates whose condition (or its negation) is among the assumed facts."""
    if not isinstance(term, tuple) or not facts or not term:
        return term
    if term[0] == "gate":
        c = assume(term[1], facts)
        if c in facts:
            return assume(term[2], facts)
        if negate(c) in facts:
            return assume(term[3], facts)
        # a conjunction all of whose parts are assumed holds; one with an assumed-false part fails (dually for `or`)
        if isinstance(c, tuple) and c and c[0] in ("and", "or") and len(c) == 2 and isinstance(c[1], tuple):
            known = [True if p in facts else (False if negate(p) in facts else None) for p in c[1]]
            if c[0] == "and":
                if all(k is True for k in known):
                    return assume(term[2], facts)
                if any(k is False for k in known):
                    return assume(term[3], facts)
            else:
                if any(k is True for k in known):
                    return assume(term[2], facts)
                if all(k is False for k in known):
                    return assume(term[3], facts)
        return gate(c, assume(term[2], facts), assume(term[3], facts))
    if term[0] in ("const", "param", "field0", "global", "str", "mu", "eta", "elem", "undef"):
        return term
    return tuple(assume(x, facts) if isinstance(x, tuple) else x for x in term)


def subterms(t):
    """All tuple subterms, pre-order."""
    if isinstance(t, tuple):
        if t and isinstance(t[0], str):
            yield t
        for x in t:
            if isinstance(x, tuple):
                yield from subterms(x)


def contains(t, pred):
    return any(pred(s) for s in subterms(t))


def is_site(x):
    return isinstance(x, tuple) and len(x) >= 3 and isinstance(x[0], str) and x[0].endswith(".py")


def site_loops(t):
    """Loop ids enclosing the creation site of a res/new/draw term (None if t has no site)."""
    if isinstance(t, tuple) and len(t) > 1 and is_site(t[1]):
        last = t[1][-1]
        if isinstance(last, tuple) and last and last[0] == "L":
            return tuple(last[1:])
    return None


def strip_sites(t):
    """Replace sites (which carry line numbers) by a placeholder, for line-independent keys."""
    if is_site(t):
        return "@"
    if isinstance(t, tuple):
        return tuple(strip_sites(x) for x in t)
    return t


def show(t, lines=True):
    """Compact rendering of a term."""
    if not isinstance(t, tuple) or not t:
        return repr(t)
    k = t[0]
    if not isinstance(k, str):
        return "(" + ", ".join(show(x, lines) if isinstance(x, tuple) else str(x) for x in t) + ")"

    def at(site):
        return f"@{site[1]}" if lines and is_site(site) else ""

    def sh(x):
        return show(x, lines)
    if k == "const":
        return repr(t[1])
    if k == "param":
        return t[1]
    if k == "field0":
        return f"self.{t[1]}"
    if k == "global":
        return t[1]
    if k == "self":
        return "self"
    if k == "new":
        inner = ", ".join(sh(x) for x in t[3]) if isinstance(t[3], tuple) else ""
        return f"new<{t[2]}{at(t[1])}>({inner})"
    if k == "res":
        a = ", ".join([sh(x) for x in t[3]] + [f"{n}={sh(v)}" for n, v in t[4]])
        return f"{t[2]}{at(t[1])}({a})"
    if k == "draw":
        a = ", ".join([sh(x) for x in t[3]] + [f"{n}={sh(v)}" for n, v in t[4]])
        return f"DRAW[{t[2]}{at(t[1])}]({a})"
    if k == "fn":
        return f"{t[1]}(" + ", ".join(sh(x) for x in t[2]) + ")"
    if k in ("op", "cmp"):
        return f"({sh(t[2])} {t[1]} {sh(t[3])})"
    if k in ("not", "neg"):
        return f"{k}({sh(t[1])})"
    if k in ("and", "or"):
        return "(" + f" {k} ".join(sh(x) for x in t[1]) + ")"
    if k == "gate":
        return f"[{sh(t[1])} ? {sh(t[2])} : {sh(t[3])}]"
    if k == "mu":
        return f"mu{t[1]}.{t[2]}"
    if k == "eta":
        return f"eta{t[1]}.{t[2]}"
    if k == "elem":
        return f"elem{t[1]}"
    if k == "sub":
        return f"{sh(t[1])}[{sh(t[2])}]"
    if k == "attr":
        return f"{sh(t[1])}.{t[2]}"
    if k == "tget":
        return f"{sh(t[1])}.{t[2]}"
    if k == "tuple":
        return "(" + ", ".join(sh(x) for x in t[1]) + ")"
    if k == "kw":
        return f"{t[1]}={sh(t[2])}"
    if k == "spread":
        return f"**{sh(t[1])}"
    if k == "kv":
        return f"{sh(t[1])}: {sh(t[2])}"
    if k == "comp":
        key = f"{sh(t[4])}: " if t[4] is not None else ""
        conds = "".join(f" if {sh(c)}" for c in t[6])
        return f"{t[1]}[{key}{sh(t[5])} for elem{t[2]} in {sh(t[3])}{conds}]"
    if k == "flat":
        return f"flat({sh(t[1])})"
    if k == "str":
        return t[1]
    if k == "star":
        return "*" + sh(t[1])
    if k == "kwstar":
        return "**" + sh(t[1])
    if k == "slice":
        return ":".join("" if x == ("const", None) else sh(x) for x in t[1:])
    return k + "(" + ", ".join(sh(x) if isinstance(x, tuple) else str(x) for x in t[1:]) + ")"


def show_nl(t):
    """Rendering without line numbers (for finding keys)."""
    return show(t, lines=False)


# ------------------------------------------------------------------------------------------------
# summariser
# ------------------------------------------------------------------------------------------------
class Counter:
    def __init__(self):
        self.n = 0

    def next(self):
        self.n += 1
        return self.n


class Summary:
    def __init__(self):
        self.events = []
        self.ret = ("undef",)
        self.fields = {}
        self.env = {}
        self.module = None
        self.cls = None
        self.fn = None
        self.owner = None

    @property
    def qual(self):
        return (f"{self.owner.name}." if self.owner else "") + self.fn.name

    @property
    def path(self):
        return self.module.path


def _own_nodes(stmts):
    """Nodes of the statements, not entering nested function / class definitions."""
    todo = list(stmts)
    while todo:
        n = todo.pop()
        yield n
        for c in ast.iter_child_nodes(n):
            if not isinstance(c, (ast.FunctionDef, ast.AsyncFunctionDef, ast.Lambda, ast.ClassDef)):
                todo.append(c)


def _loop_returns_to_breaks(loop, uid):
    """[flag = False; value = None; loop'; if flag: return value] where every `return v` of the loop (also of
    loops nested in it) sets the pair and breaks out of all loops up to this one."""
    flag, val = f"_ds_rf{uid}", f"_ds_rv{uid}"

    def name(n, store=False):
        return ast.Name(id=n, ctx=ast.Store() if store else ast.Load())

    def assign(n, value, like):
        a = ast.Assign(targets=[name(n, True)], value=value, type_comment=None)
        ast.copy_location(a, like)
        ast.fix_missing_locations(a)
        return a

    class T(ast.NodeTransformer):
        def visit_FunctionDef(self, n):
            return n
        visit_AsyncFunctionDef = visit_Lambda = visit_ClassDef = visit_FunctionDef

        def visit_Return(self, n):
            brk = ast.Break()
            ast.copy_location(brk, n)
            return [assign(val, n.value if n.value is not None else ast.Constant(value=None), n),
                    assign(flag, ast.Constant(value=True), n), brk]

        def _inner(self, n):
            had = any(isinstance(x, ast.Return) for x in _own_nodes(n.body))
            self.generic_visit(n)
            n._ds_noreturn = True
            if not had:
                return n
            brk = ast.Break()
            test = ast.If(test=name(flag), body=[brk], orelse=[])
            ast.copy_location(test, n)
            ast.fix_missing_locations(test)
            return [n, test]
        visit_For = visit_While = _inner
    new = copy.deepcopy(loop)
    t = T()
    new.body = [x for b in new.body for x in (lambda r: r if isinstance(r, list) else [r])(t.visit(b))]
    new._ds_noreturn = True
    ret = ast.Return(value=name(val))
    tail = ast.If(test=name(flag), body=[ret], orelse=[])
    ast.copy_location(tail, loop)
    ast.fix_missing_locations(tail)
    return [assign(flag, ast.Constant(value=False), loop), assign(val, ast.Constant(value=None), loop), new, tail]


class _Bind(ast.stmt):
    """Synthetic statement of an unrolled loop: bind the loop target to one item of the display."""
    _fields = ()

    def __init__(self, target, term, like):
        super().__init__()
        self.target, self.term = target, term
        ast.copy_location(self, like)


class _Alias(ast.stmt):
    """Synthetic statement: `name` becomes a second name for what `other` denotes (an owned collaborator object)."""
    _fields = ()

    def __init__(self, name, other):
        super().__init__()
        self.name, self.other = name, other


class _Term(ast.expr):
    """Synthetic expression: a value that has already been evaluated."""
    _fields = ()

    def __init__(self, term, like):
        super().__init__()
        self.term = term
        ast.copy_location(self, like)


class Summariser:
    """Summarises one function (with same-class helpers inlined) into terms + an effect tree."""

    MAX_DEPTH = 6

    def __init__(self, prog, module, cls, fn, params=None, fields=None, depth=0, ids=None, stack=(),
                 loops=(), owner=None, fnstack=()):
        self.prog, self.module, self.cls, self.fn = prog, module, cls, fn
        self.owner = owner
        self.depth, self.ids, self.stack = depth, ids or Counter(), stack
        self.fnstack = fnstack + (fn,)
        self.loops = loops
        if cls is not None and prog.class_hooks:
            for k in prog.mro(cls):
                if k.qual in prog.class_hooks:
                    raise Unsupported(f"methods of {k.name} are rewritten when the class is created: {prog.class_hooks[k.qual]}")
        for h in prog._fn_hazards.get(id(fn), ()):
            prog.hazard((h[0], h[1]), h)
        for h in prog._module_hazards.get(module.name, ()):
            prog.hazard((h[0], h[1]), h)
        if cls is not None and prog._class_hazards:
            for k in prog.mro(cls):
                for h in prog._class_hazards.get(k.qual, ()):
                    prog.hazard((h[0], h[1]), h)
        self.env = {}
        self.fields = fields if fields is not None else {}
        self.facts = []
        self.base_facts = 0         # facts inherited from the caller when inlined
        self.exits = []             # [(branch facts, field state)] at every `return` of this function
        self.loop_marks = []        # [(len(facts) at loop entry, [jump snapshots])]
        self.self_name = None
        self.list_frames = []       # per active loop: bookkeeping of lists filled by the loop body
        self.field_prefix = ""      # "<field>." while a method of an owned collaborator object is inlined
        self.consumer_state = None  # (names, fields) the consumer of this generator carries between yields
        self.on_yield = None        # consumer callback while a generator body is run for its `for` loop / `with`
        self.loop_iters = {}        # loop id -> iterated term (for comprehensions over generators)
        args = fn.args
        names = [a.arg for a in args.posonlyargs + args.args]
        decos = [ast.unparse(d) for d in fn.decorator_list]
        self.is_static = "staticmethod" in decos
        self.is_classmethod = "classmethod" in decos
        self.cm_cls = None         # the class `cls` names when a classmethod of another class has been inlined
        if cls is not None and not self.is_static and names:
            self.self_name = names[0]
            names = names[1:]
        all_names = names + [a.arg for a in args.kwonlyargs]
        for n in all_names:
            self.env[n] = (params or {}).get(n, ("param", n))
        if args.vararg:
            self.env[args.vararg.arg] = (params or {}).get("*", ("param", "*" + args.vararg.arg))
        if args.kwarg:
            self.env[args.kwarg.arg] = (params or {}).get("**", ("param", "**" + args.kwarg.arg))

    # -- helpers ---------------------------------------------------------------------------------
    def site(self, node):
        # the enclosing loops are part of the identity: an object created inside a loop is a new object
        # per iteration, and rules can ask where it is created (site_loops)
        return (self.module.path, node.lineno, node.col_offset) + tuple(self.stack) + (("L",) + tuple(self.loops),)

    def fname(self, attr):
        if attr.startswith("__") and not attr.endswith("__") and self.cls is not None:
            # private name mangling: inside a class body `self.__x` is `self._Class__x` of the class that *defines* the method
            owner = self.owner if isinstance(self.owner, ClassInfo) else self._defining_class()
            if owner is not None:
                attr = f"_{owner.name.lstrip('_')}{attr}"
        return self.field_prefix + attr

    def _back_reference(self, name):
        """`owner.part` always denotes the owning object itself when the constructor stores it there and nothing
        else in the collaborator's class or the owner's classes assigns that attribute."""
        if "." not in name or name.startswith("%") or self.cls is None:
            return None
        key = (self._root_key(), name)
        cache = self.prog.back_refs
        if key not in cache:
            cache[key] = None
            rk = key[0]
            root = self.prog.cls(rk) if isinstance(rk, str) and not rk.startswith("<") else None
            if root is None:
                return None
            c, init = self.prog.find_method(root, "__init__")
            if init is None or init in self.fnstack:
                del cache[key]
                return None
            try:
                v = self.prog.summarise(root, "__init__").fields.get(name)
            except Unsupported:
                v = None
            if v is not None and v[0] == "outer" and v[1] == "":
                owner_fld, attr = name.rsplit(".", 1)
                K = self.prog.owned.get((rk, owner_fld))
                stores = 0
                for k in ([K] if K is not None else []) + list(self.prog.mro(root)):
                    for n in ast.walk(k.node):
                        if isinstance(n, ast.Attribute) and n.attr == attr and isinstance(n.ctx, (ast.Store, ast.Del)):
                            stores += 1
                        if isinstance(n, ast.Call) and isinstance(n.func, ast.Name) and n.func.id in ("setattr", "delattr"):
                            stores += 2
                if K is not None and stores == 1:
                    cache[key] = v
        return cache.get(key)

    def _alias_of(self, name):
        """`owner.part` is the very object held in another field of the owning object: the constructor puts the same
        freshly built object into both and neither attribute is assigned anywhere else.  Returns that field's name."""
        if "." not in name or name.startswith("%") or self.cls is None:
            return None
        rk = self._root_key()
        key = (rk, name)
        cache = self.prog.field_aliases
        if key in cache:
            return cache[key]
        root = self.prog.cls(rk) if isinstance(rk, str) and not rk.startswith("<") else None
        if root is None:
            return None
        _, init = self.prog.find_method(root, "__init__")
        if init is None or init in self.fnstack:
            return None
        cache[key] = None
        try:
            fs = self.prog.summarise(root, "__init__").fields
        except Unsupported:
            return None
        v = fs.get(name)
        if v is None or v[0] not in ("new", "res"):
            return None                 # one object built at one site (by the package or by a library call)
        owner_fld, attr = name.rsplit(".", 1)
        K = self.prog.owned.get((rk, owner_fld))
        twins = [f for f, t in fs.items() if t == v and "." not in f]
        if K is None or len(twins) != 1:
            return None
        twin = twins[0]

        def stores(node, a, skip_init):
            n_st = 0
            for fn in ast.walk(node):
                if isinstance(fn, ast.FunctionDef) and not (skip_init and fn.name == "__init__"):
                    n_st += sum(1 for n in ast.walk(fn) if isinstance(n, ast.Attribute) and n.attr == a and
                                isinstance(n.ctx, (ast.Store, ast.Del)))
                    n_st += sum(1 for n in ast.walk(fn) if isinstance(n, ast.Call) and isinstance(n.func, ast.Name) and
                                n.func.id in ("setattr", "delattr"))
            return n_st
        classes = list(self.prog.mro(root)) + [c for c in self.prog.subclasses(root) if c not in self.prog.mro(root)]
        if any(stores(k.node, twin, True) for k in classes) or any(stores(k.node, attr, True) for k in self.prog.mro(K)) or \
                any(stores(k.node, attr, False) for k in classes):
            return None
        cache[key] = twin
        return twin

    def _mirror_of(self, name):
        """`owner.part` always holds the same value as a field of the owning object (a collaborator keeping its own
        copy of a number the owner also stores): the constructor leaves equal values and every public method of the
        owner changes both alike.  Returns the owner's field, whose value at method entry then stands for both."""
        if "." not in name or name.startswith("%") or self.cls is None:
            return None
        rk = self._root_key()
        key = (rk, name)
        cache = self.prog.mirrors
        if key in cache:
            return cache[key]
        root = self.prog.cls(rk) if isinstance(rk, str) and not rk.startswith("<") else None
        if root is None:
            return None
        _, init = self.prog.find_method(root, "__init__")
        if init is None or init in self.fnstack:
            return None
        cache[key] = None               # while this is being decided nothing is assumed
        before = set(self.prog._summaries)
        try:
            fs = self.prog.summarise(root, "__init__").fields
            v = fs.get(name)
            if v is None or v[0] in ("new", "res", "const", "param") or (rk, name.rsplit(".", 1)[0]) not in self.prog.owned:
                return None
            twins = [f for f, t in fs.items() if t == v and "." not in f]
            if len(twins) != 1:
                return None
            twin = twins[0]
            a0, b0 = ("field0", name), ("field0", twin)
            for k in self.prog.mro(root):
                for mname, m in k.methods.items():
                    if mname == "__init__" or (mname.startswith("_") and not mname.startswith("__")) or "." in mname:
                        continue
                    if self.prog.find_method(root, mname)[1] is not m:
                        continue
                    s = self.prog.summarise(root, mname)
                    a, b = s.fields.get(name, a0), s.fields.get(twin, b0)
                    if subst(a, {a0: b0}) != subst(b, {a0: b0}):
                        return None
            for k in set(self.prog._summaries) - before:
                if k != (root.qual, root.qual, "__init__"):
                    del self.prog._summaries[k]         # recomputed with the two fields identified
            cache[key] = twin
            return twin
        except Unsupported:
            return None

    def _never_none_field(self, name):
        """Class invariant `self.<name> is not None`: the constructor leaves a value that is never None and every
        method that assigns the attribute leaves one too (given that it found one).  Decided only when all stores
        are in the object's own class (for `owner.part`: in the collaborator's class)."""
        if self.cls is None or name.startswith("%"):
            return False
        rk = self._root_key()
        key = (rk, name)
        cache = self.prog.nonnull
        if key in cache:
            return cache[key]
        root = self.prog.cls(rk) if isinstance(rk, str) and not rk.startswith("<") else None
        if root is None:
            return False
        _, init = self.prog.find_method(root, "__init__")
        if init is None or init in self.fnstack:
            return False
        cache[key] = False
        try:
            v = self.prog.summarise(root, "__init__").fields.get(name)
        except Unsupported:
            return False
        if v is None or _is_none(v) != ("const", False):
            return False
        if "." in name:
            owner_fld, attr = name.rsplit(".", 1)
            K = self.prog.owned.get((rk, owner_fld))
            if K is None or "." in owner_fld:
                return False
            inside, outside = self.prog.mro(K), self.prog.mro(root)
        else:
            attr, K, inside, outside = name, root, self.prog.mro(root), []

        def stores(node):
            return any(isinstance(n, ast.Attribute) and n.attr == attr and isinstance(n.ctx, (ast.Store, ast.Del))
                       for n in ast.walk(node)) or \
                any(isinstance(n, ast.Call) and isinstance(n.func, ast.Name) and n.func.id in ("setattr", "delattr", "vars")
                    for n in ast.walk(node)) or \
                any(isinstance(n, ast.Attribute) and n.attr == "__dict__" for n in ast.walk(node))
        if any(stores(k.node) for k in outside):
            return False
        f0 = ("field0", attr)
        known = {("cmp", "is", f0, ("const", None)): ("const", False), ("cmp", "is not", f0, ("const", None)): ("const", True),
                 f0: ("op", "+", f0, ("const", 0))}
        for k in inside:
            for mname, m in k.methods.items():
                if mname == "__init__" or not stores(m):
                    continue
                try:
                    fv = self.prog.summarise(K, mname).fields.get(attr)
                except Unsupported:
                    return False
                if fv is not None and _is_none(subst(fv, known)) != ("const", False):
                    return False
        cache[key] = True
        return True

    def _init_only(self, root, attr):
        """Is the attribute assigned in constructors only (nowhere else in the class hierarchy, no setattr / __dict__)?"""
        key = (root.qual, attr)
        cache = self.prog.init_only
        if key not in cache:
            ok = True
            classes = list(self.prog.mro(root)) + [c for c in self.prog.subclasses(root) if c not in self.prog.mro(root)]
            for k in classes:
                for mname, m in k.methods.items():
                    for n in ast.walk(m):
                        if isinstance(n, ast.Attribute) and n.attr == attr and isinstance(n.ctx, (ast.Store, ast.Del)) and \
                                mname != "__init__":
                            ok = False
                        if isinstance(n, ast.Call) and isinstance(n.func, ast.Name) and n.func.id in ("setattr", "delattr", "vars"):
                            ok = False
                        if isinstance(n, ast.Attribute) and n.attr == "__dict__":
                            ok = False
            cache[key] = ok
        return cache[key]

    def _ctor_callable(self, name):
        """`self.<name>` when the constructor leaves a functools.partial there and nothing ever rebinds the attribute: the
        partial itself, its arguments expressed over the object's state -- a constructor parameter is the attribute
        that stores it (itself never rebound), an object built for the partial alone is the component `<name>.<i>`."""
        if self.cls is None or self.field_prefix or "." in name or name.startswith("%"):
            return None
        root = self.prog.mro(self.cls)[0]
        key = (root.qual, name)
        cache = self.prog.ctor_callables
        if key in cache:
            return cache[key]
        cache[key] = None
        _, init = self.prog.find_method(root, "__init__")
        if init is None or init in self.fnstack or self.fn.name == "__init__":
            cache.pop(key)
            return None
        if not any(isinstance(n, ast.Attribute) and n.attr == name and isinstance(n.ctx, ast.Store)
                   for k in self.prog.mro(root) if "__init__" in k.methods for n in ast.walk(k.methods["__init__"])):
            return None
        try:
            fs = self.prog.summarise(root, "__init__").fields
        except Unsupported:
            return None
        v = fs.get(name)
        if not (v and v[0] == "partial") or not self._init_only(root, name):
            return None
        stored = {}
        for f, t in fs.items():
            if t[0] == "param" and "." not in f and self._init_only(root, f):
                stored.setdefault(t, ("field0", f))

        def translate(t, comp):
            if t[0] == "const" or (t[0] == "global" and not t[1].startswith("?")):
                return t
            if t in stored:
                return stored[t]
            if t[0] == "field0" and "." not in t[1] and self._init_only(root, t[1]):
                return t
            if comp is not None and f"{name}.{comp}" in fs:
                return ("field0", f"{name}.{comp}")
            return None
        args = tuple(translate(a, i) for i, a in enumerate(v[2]))
        kws = tuple((k, translate(a, k)) for k, a in v[3])
        fn = translate(v[1], None) if v[1][0] != "attr" else None
        if fn is None or any(a is None for a in args) or any(a is None for _, a in kws):
            return None
        cache[key] = ("partial", fn, args, kws)
        return cache[key]

    def field(self, name):
        if name not in self.fields:
            held = self._ctor_callable(name)
            if held is not None:
                return held
        if name not in self.fields and "." in name:
            twin = self._alias_of(name)
            if twin is not None:
                return self.field(twin)
            twin = self._mirror_of(name)
            if twin is not None:
                return ("field0", twin)         # equal at method entry; this method has not assigned `name` yet
        if name not in self.fields:
            back = self._back_reference(name)
            if back is not None:
                self.fields[name] = back
                return back
            names = self._record_names(name)
            if names and self.cls is not None and (self._root_key(), name) in self.prog.dict_records:
                return ("dictrec", name, tuple(names))      # a reference to the dict of named slots, not a snapshot
            if names:
                # a field that holds an immutable record is the display of its components (not noted as state of this
                # path: reading it on one branch only must not make the branches differ)
                return ("tuple", tuple(("field0", f"{name}.{n}") for n in names), ("names",) + tuple(names))
            else:
                self.fields[name] = ("field0", name)
        return assume(self.fields[name], self.facts) if self.facts else self.fields[name]

    def _record_names(self, name):
        """Component names if the constructor leaves an immutable record (NamedTuple) in this field."""
        if self.cls is None:
            return None
        key = (self.cls.qual, name)
        cache = self.prog.record_field_names
        if key not in cache:
            c, init = self.prog.find_method(self.cls, "__init__")
            if init is not None and init in self.fnstack:
                return None             # inside the constructor itself: nothing is known yet
            cache[key] = None
            inits = [k.methods["__init__"] for k in self.prog.mro(self.cls) if "__init__" in k.methods]
            if init is not None and \
                    any(isinstance(n, ast.Attribute) and n.attr == name and isinstance(n.ctx, ast.Store)
                        for i in inits for n in ast.walk(i)):
                try:
                    fs = self.prog.summarise(self.cls, "__init__").fields
                except Unsupported:
                    fs = {}
                comps = [k[len(name) + 1:] for k in fs if k.startswith(name + ".")]
                if comps and name not in fs:
                    cache[key] = tuple(comps)
        return cache[key]

    def is_self(self, e):
        if isinstance(e, ast.Name) and self.self_name is not None and e.id == self.self_name and not self.is_classmethod:
            return e.id not in self.env or self.env[e.id] == ("self",)
        # the instance handed to a helper function under another name
        return isinstance(e, ast.Name) and self.cls is not None and self.env.get(e.id) == ("self",)

    def exit_fields(self, term):
        """Field state at function exit: the fall-through state merged (gated) with the states at
        every early `return`."""
        merged = None if term else dict(self.fields)
        for facts, fields in reversed(self.exits):
            if merged is None:
                merged = dict(fields)
                continue
            if not facts:
                continue
            cond = facts[0] if len(facts) == 1 else ("and", tuple(facts))
            out = {}
            for k in set(merged) | set(fields):
                out[k] = gate(cond, fields.get(k, ("field0", k)), merged.get(k, ("field0", k)))
            merged = out
        return merged if merged is not None else dict(self.fields)

    # -- blocks ----------------------------------------------------------------------------------
    def run(self):
        for n in ast.walk(self.fn):
            if isinstance(n, (ast.Yield, ast.YieldFrom)):
                raise Unsupported(f"generator {self.fn.name} at {self.module.path}:{self.fn.lineno}")
        level = len(user_decorators(self.fn)) if self.depth == 0 else 0
        if level:
            # a decorated entry point: what runs is the wrapper its decorators returned, called with the
            # parameters of the definition
            a = self.fn.args
            names = [x.arg for x in a.posonlyargs + a.args]
            if self.cls is not None and not self.is_static:
                names = names[1:]
            if a.vararg or a.kwarg:
                raise Unsupported(f"decorated {self.fn.name} with *args at {self.module.path}:{self.fn.lineno}")
            pos = tuple(self.env[n] for n in names)
            if self.cls is not None and not self.is_static:
                pos = (("self",),) + pos
            kw = tuple((x.arg, self.env[x.arg]) for x in a.kwonlyargs)
            w = self.wrapper_of(self.owner if self.cls is not None else None, self.fn, level)
            outer, self.fnstack = [], ()
            ret = self.inline_closure(w, pos, kw, outer, self.fn)
            events, term = list(outer[-1].body), False
            fields = dict(self.fields)
        else:
            events, term, ret = self.block(self.fn.body)
            fields = self.exit_fields(term)
        s = Summary()
        s.events = events
        s.ret = ret if ret is not None else ("const", None)
        if not term and ret is not None:
            s.ret = ret
        s.ret = memo_value(self.fn, s.ret)
        s.fields, s.env = fields, self.env
        for k in [k for k in s.fields if k.startswith("%")]:
            del s.fields[k]                 # state of local collaborator objects
        if self.fn.name == "__init__" and self.cls is not None and self.depth == 0 and not self.field_prefix:
            root = self.prog.mro(self.cls)[0]
            for k, v in list(s.fields.items()):
                if v[0] == "new" and v[2] == "dict" and v[3] and "." not in k and \
                        all(i[0] == "kv" and i[1][0] == "const" and isinstance(i[1][1], str) and i[1][1].isidentifier() for i in v[3]) \
                        and len({i[1][1] for i in v[3]}) == len(v[3]) and self.prog.dict_record_ok(root, k) and \
                        not any(isinstance(ev, (SubStore, Mut, Del)) and getattr(ev, "cont", getattr(ev, "recv", None)) == v
                                for ev, _ in _walk_events(events)):
                    # a dict of named slots: each entry is a component of the object's state
                    del s.fields[k]
                    for i in v[3]:
                        s.fields[f"{k}.{i[1][1]}"] = i[2]
                    self.prog.dict_records[(root.qual, k)] = tuple(i[1][1] for i in v[3])
        if self.fn.name == "__init__" and self.cls is not None and self.depth == 0 and not self.field_prefix:
            for k, v in list(s.fields.items()):
                if v[0] == "partial" and "." not in k:
                    for i, a in list(enumerate(v[2])) + list(v[3]):
                        if a[0] == "new":
                            s.fields[f"{k}.{i}"] = a       # an object the partial alone holds: a component of the state
        for k, v in list(s.fields.items()):
            names = record_names(v)
            if names:
                del s.fields[k]
                for n in names:
                    s.fields[f"{k}.{n}"] = attr_of(v, n)
        s.module, s.cls, s.fn, s.owner = self.module, self.cls, self.fn, self.owner
        return s

    def block(self, stmts):
        """returns (events, terminated, retval); retval is the (gated) value returned on the
        terminated paths, or None if no path returns a value."""
        events = []
        for i, st in enumerate(stmts):
            rest = stmts[i + 1:]
            if isinstance(st, ast.If):
                cond = truth(self.expr(st.test, events))
                # does the test re-evaluate state here (calls / attribute or item reads), or only look at
                # values computed earlier (plain names)?
                fresh = any(isinstance(n, (ast.Call, ast.Attribute, ast.Subscript)) for n in ast.walk(st.test))
                known = const_truth(cond)
                if known is not None and not isinstance(st.test, ast.Constant):
                    # the test is decided by the shape of its operands (e.g. `slot is not None` for an inlined
                    # call that passes no slot): only the taken arm exists
                    ev, term, ret = self.block(list(st.body if known else st.orelse) + list(rest))
                    events.extend(ev)
                    return events, term, ret
                env0, f0 = dict(self.env), dict(self.fields)
                if rest and _partial_exit(st):
                    # some (not all) paths of the arms leave the function: duplicate the continuation
                    # into both arms so that it is analysed under each arm's branch facts
                    self.facts.append(cond)
                    ev_t, term_t, ret_t = self.block(list(st.body) + list(rest))
                    self.facts.pop()
                    env_t, f_t = self.env, self.fields
                    self.env, self.fields = dict(env0), dict(f0)
                    self.facts.append(negate(cond))
                    ev_e, term_e, ret_e = self.block(list(st.orelse) + list(rest))
                    self.facts.pop()
                    env_e, f_e = self.env, self.fields
                    events.append(If(cond, ev_t, ev_e, st.lineno, fresh))
                    if term_t and term_e:
                        return events, True, _gate_ret(cond, ret_t, ret_e)
                    if term_t:
                        self.env, self.fields = env_e, f_e
                        return events, False, ret_t
                    if term_e:
                        self.env, self.fields = env_t, f_t
                        return events, False, ret_e
                    self.env = self.merge(cond, env_t, env_e)
                    self.fields = self.merge(cond, f_t, f_e, field=True)
                    return events, False, None
                self.facts.append(cond)
                ev_t, term_t, ret_t = self.block(st.body)
                self.facts.pop()
                env_t, f_t = self.env, self.fields
                self.env, self.fields = dict(env0), dict(f0)
                self.facts.append(negate(cond))
                ev_e, term_e, ret_e = self.block(st.orelse)
                self.facts.pop()
                env_e, f_e = self.env, self.fields
                if term_t and term_e:
                    events.append(If(cond, ev_t, ev_e, st.lineno, fresh))
                    return events, True, _gate_ret(cond, ret_t, ret_e)
                if term_t:
                    self.env, self.fields = env_e, f_e
                    self.facts.append(negate(cond))
                    ev_r, term_r, ret_r = self.block(rest)
                    self.facts.pop()
                    events.append(If(cond, ev_t, ev_e + ev_r, st.lineno, fresh))
                    return events, term_r, _gate_ret(cond, ret_t, ret_r, True, term_r)
                if term_e:
                    self.env, self.fields = env_t, f_t
                    self.facts.append(cond)
                    ev_r, term_r, ret_r = self.block(rest)
                    self.facts.pop()
                    events.append(If(cond, ev_t + ev_r, ev_e, st.lineno, fresh))
                    return events, term_r, _gate_ret(cond, ret_r, ret_e, term_r, True)
                events.append(If(cond, ev_t, ev_e, st.lineno, fresh))
                self.env = self.merge(cond, env_t, env_e)
                self.fields = self.merge(cond, f_t, f_e, field=True)
                continue
            if isinstance(st, ast.For) and not st.orelse and isinstance(st.iter, (ast.Name, ast.Attribute, ast.Tuple, ast.List)) \
                    and any(isinstance(n, ast.Return) for b in st.body for n in ast.walk(b)) \
                    and not any(isinstance(n, (ast.Break, ast.Continue, ast.Yield, ast.YieldFrom))
                                for b in st.body for n in ast.walk(b)):
                # a search loop over a short display (`for k, v in TABLE: if test(k): return f(v)`): the body once
                # per item, followed by the rest of the block -- early returns are handled like any other
                probe = []
                it = self.expr(st.iter, probe)
                items = self._display_items(it, _plain_list(st.iter)) if not probe else None
                if items is not None and len(items) <= 4:
                    stmts = []
                    for item in items:
                        stmts.append(_Bind(st.target, item, st))
                        stmts.extend(st.body)
                    ev, term, ret = self.block(stmts + list(rest))
                    events.extend(ev)
                    return events, term, ret
            if isinstance(st, ast.For) and not st.orelse and isinstance(st.iter, (ast.Name, ast.Attribute, ast.Tuple, ast.List)) \
                    and st.body and isinstance(st.body[-1], ast.If) and not st.body[-1].orelse and st.body[-1].body and \
                    isinstance(st.body[-1].body[-1], ast.Break) and \
                    sum(isinstance(n, (ast.Break, ast.Continue, ast.Return, ast.Yield, ast.YieldFrom))
                        for b in st.body for n in ast.walk(b)) == 1:
                # a search loop over a short display that stops at the first hit (`for k, v in TABLE: if test(k): ...;
                # break`): the items are tried in turn, each in the else branch of the one before
                probe = []
                it = self.expr(st.iter, probe)
                items = self._display_items(it, _plain_list(st.iter)) if not probe else None
                if items is not None and 1 <= len(items) <= 4:
                    hit = st.body[-1]
                    chain = []
                    for item in reversed(items):
                        branch = ast.If(test=hit.test, body=list(hit.body[:-1]) or [ast.copy_location(ast.Pass(), hit)],
                                        orelse=chain)
                        ast.copy_location(branch, hit)
                        branch.end_lineno = getattr(hit, "end_lineno", hit.lineno)
                        chain = [_Bind(st.target, item, st)] + list(st.body[:-1]) + [branch]
                    ev, term, ret = self.block(chain + list(rest))
                    events.extend(ev)
                    return events, term, ret
            if isinstance(st, (ast.For, ast.While)) and not getattr(st, "_ds_noreturn", False) and \
                    any(isinstance(n, ast.Return) for n in _own_nodes(st.body)):
                # a loop that can return: the return becomes `value, flag = ..., True; break` (propagated out of
                # nested loops) and the function returns after the loop when the flag is set
                new_stmts = _loop_returns_to_breaks(st, self.ids.next())
                ev, term, ret = self.block(new_stmts + list(rest))
                events.extend(ev)
                return events, term, ret
            if isinstance(st, ast.Return):
                val = self.expr(st.value, events) if st.value is not None else ("const", None)
                events.append(Return(val, st.lineno))
                self.exits.append((tuple(self.facts[self.base_facts:]), dict(self.fields)))
                return events, True, val
            if isinstance(st, ast.Raise):
                exc = self.expr(st.exc, events) if st.exc is not None else ("const", None)
                events.append(Raise(exc, st.lineno))
                return events, True, None
            if isinstance(st, (ast.Continue, ast.Break)):
                kind = "continue" if isinstance(st, ast.Continue) else "break"
                if not self.loop_marks:
                    raise Unsupported(f"{kind} outside a loop at {self.module.path}:{st.lineno}")
                events.append(Jump(kind, st.lineno))
                self.loop_marks[-1][1].append((kind, tuple(self.facts[self.loop_marks[-1][0]:]),
                                               dict(self.env), dict(self.fields)))
                return events, True, None
            if isinstance(st, ast.With) and len(st.items) == 1 and self._with_object(st) is not None:
                ev, term, ret = self.block(self._with_object(st) + list(rest))
                events.extend(ev)
                return events, term, ret
            if isinstance(st, ast.With):
                done = self._with_contextmanager(st, events) if len(st.items) == 1 else None
                if done is not None:
                    term, ret = done
                    if term:
                        return events, True, ret
                    continue
                items = tuple(self.expr(item.context_expr, events) for item in st.items)
                for item in st.items:
                    if item.optional_vars is not None:
                        self.assign(item.optional_vars, ("res", self.site(item.context_expr), "__enter__", (), ()),
                                    events, st)
                ev, term, ret = self.block(st.body)
                events.append(With(items, ev, st.lineno))
                if term:
                    return events, True, ret
                continue
            if isinstance(st, ast.Try) and rest and not st.finalbody and not getattr(st, "_continued", False):
                arms = [list(st.body) + list(st.orelse)] + [list(h.body) for h in st.handlers]
                leaves = [_arm_exits(a) for a in arms]
                if any(some for some, _ in leaves) and not all(every for _, every in leaves):
                    # some arms return, others fall through to what follows: what follows is continued inside the arms
                    # that reach it (after the handler's own statements; after the body in the unprotected else clause)
                    handlers = []
                    for h, (some, every) in zip(st.handlers, leaves[1:]):
                        h2 = ast.ExceptHandler(type=h.type, name=h.name, body=list(h.body) + ([] if every else list(rest)))
                        ast.copy_location(h2, h)
                        h2.end_lineno = getattr(h, "end_lineno", h.lineno)
                        handlers.append(h2)
                    st2 = ast.Try(body=list(st.body), handlers=handlers,
                                  orelse=list(st.orelse) + ([] if leaves[0][1] else list(rest)), finalbody=[])
                    ast.copy_location(st2, st)
                    st2.end_lineno = getattr(st, "end_lineno", st.lineno)
                    st2._continued = True
                    term, ret = self.try_(st2, events)
                    return events, term, ret
            if isinstance(st, ast.Try):
                term, ret = self.try_(st, events)
                if term:
                    return events, True, ret
                continue
            self.stmt(st, events)
        return events, False, None

    def merge(self, cond, a, b, field=False):
        out = {}
        for k in set(a) | set(b):
            va = a.get(k, ("field0", k) if field else ("undef",))
            vb = b.get(k, ("field0", k) if field else ("undef",))
            if not field and va[0] == "owned" and vb == ("undef",):
                out[k] = va             # a local collaborator created on one branch: elsewhere the name is not bound at all
            elif not field and vb[0] == "owned" and va == ("undef",):
                out[k] = vb
            else:
                out[k] = gate(cond, va, vb)
        return out

    # -- statements ------------------------------------------------------------------------------
    def stmt(self, st, events):
        if isinstance(st, _Bind):
            self.bind_target(st.target, st.term)
            return
        if isinstance(st, _Alias):
            self.env[st.name] = self.env[st.other]      # a second name for the same object
            return
        if isinstance(st, ast.Expr):
            if isinstance(st.value, ast.Constant):
                return
            if isinstance(st.value, ast.Yield):
                if self.on_yield is None:
                    raise Unsupported(f"yield at {self.module.path}:{st.lineno}")
                val = self.expr(st.value.value, events) if st.value.value is not None else ("const", None)
                self.on_yield(self, val, events, st)
                return
            self.expr(st.value, events)
        elif isinstance(st, ast.Assign) and len(st.targets) == 1 and isinstance(st.targets[0], (ast.Tuple, ast.List)) and \
                isinstance(st.value, (ast.GeneratorExp, ast.ListComp)) and len(st.value.generators) == 1 and \
                not st.value.generators[0].ifs and isinstance(st.value.generators[0].target, ast.Name) and \
                not any(isinstance(e_, ast.Starred) for e_ in st.targets[0].elts) and self._const_items(st.value.generators[0].iter) is not None \
                and len(self._const_items(st.value.generators[0].iter)) == len(st.targets[0].elts):
            # a, b = (make(name) for name in ("x", "y")): the element expression is evaluated once per constant
            var = st.value.generators[0].target.id
            saved = self.env.get(var, None)
            vals = []
            for item in self._const_items(st.value.generators[0].iter):
                self.env[var] = item
                vals.append(self.expr(st.value.elt, events))
            if saved is None:
                self.env.pop(var, None)
            else:
                self.env[var] = saved
            for el, v_ in zip(st.targets[0].elts, vals):
                self.assign(el, v_, events, st)
        elif isinstance(st, ast.Assign) and self._comp_as_loop(st) is not None:
            for s_ in self._comp_as_loop(st):
                self.stmt(s_, events)
        elif isinstance(st, ast.Assign):
            val = self.expr(st.value, events)
            for t in st.targets:
                self.assign(t, val, events, st)
        elif isinstance(st, ast.AnnAssign):
            if st.value is not None:
                self.assign(st.target, self.expr(st.value, events), events, st)
        elif isinstance(st, ast.AugAssign) and isinstance(st.op, (ast.BitOr, ast.BitAnd, ast.BitXor)) and \
                isinstance(st.target, ast.Name) and st.target.id in self.env and \
                self.env[st.target.id][0] in ("sub", "param", "field0", "new", "res", "elem", "tget", "attr", "comp"):
            # `d |= other` on an object (dict / set): the object itself is changed, the name keeps denoting it
            cur = self.expr(st.target, events)
            rhs = self.expr(st.value, events)
            meth = {ast.BitOr: "update", ast.BitAnd: "intersection_update", ast.BitXor: "symmetric_difference_update"}[type(st.op)]
            events.append(Mut(cur, meth, (rhs,), (), ("res", self.site(st), "." + meth, (cur, rhs), ()), st.lineno))
        elif isinstance(st, ast.AugAssign):
            cur = self.expr(st.target, events)
            rhs = self.expr(st.value, events)
            if isinstance(st.target, ast.Name):
                # `x op= y` on a name that may denote an object someone else holds (a container / array of the instance,
                # an argument, what a getter handed out): lists, deques, sets and arrays are changed in place
                leaves, todo = [], [cur]
                while todo:
                    t_ = todo.pop()
                    if t_[0] == "gate":
                        todo += [t_[2], t_[3]]
                    else:
                        leaves.append(t_)
                shared = [l for l in leaves if l[0] in ("field0", "param") or
                          (l[0] in ("res", "tget", "sub", "attr") and any(x[0] in ("field0",) for x in subterms(l)) and
                           l[0] != "res") or
                          (l[0] == "tget" and l[1][0] == "res")]
                if shared and any(l[0] == "field0" or l[0] in ("tget", "sub", "attr") for l in shared):
                    events.append(Mut(cur, "__i" + type(st.op).__name__.lower() + "__", (rhs,), (),
                                      ("res", self.site(st), ".__iop__", (cur, rhs), ()), st.lineno))
            val = ("op", BINOPS[type(st.op)], cur, rhs)
            self.assign(st.target, val, events, st, aug=BINOPS[type(st.op)])
        elif isinstance(st, (ast.For, ast.While)):
            self.loop(st, events)
        elif isinstance(st, ast.Assert):
            events.append(Assert(self.expr(st.test, events), st.lineno))
        elif isinstance(st, ast.Pass):
            pass
        elif isinstance(st, ast.Delete):
            for t in st.targets:
                if isinstance(t, ast.Subscript):
                    events.append(Del(self.expr(t.value, events), self.expr(t.slice, events), st.lineno))
                elif isinstance(t, ast.Name):
                    self.env.pop(t.id, None)
                else:
                    raise Unsupported(f"del {ast.unparse(t)} at {self.module.path}:{st.lineno}")
        elif isinstance(st, (ast.Import, ast.ImportFrom)):
            pass
        elif isinstance(st, ast.Nonlocal):
            pass            # only reached in closures whose cells are followed (closure())
        elif isinstance(st, ast.FunctionDef):
            self.env[st.name] = self.closure(st)
        elif isinstance(st, ast.ClassDef):
            self.env[st.name] = ("lambda", self.site(st))
        else:
            raise Unsupported(f"{type(st).__name__} at {self.module.path}:{st.lineno}")

    def _data_descriptor(self, attr):
        """The class of the data descriptor object bound to `attr` in the class body (a package class with __set__), if any."""
        if self.cls is None:
            return None
        for k in self.prog.mro(self.cls):
            node = k.class_attrs.get(attr)
            if isinstance(node, ast.Call) and isinstance(node.func, (ast.Name, ast.Attribute)):
                K = self.prog.resolve_class(k.module, node.func)
                st_ = self.prog.find_method(K, "__set__")[1] if K is not None else None
                if st_ is not None and len(st_.args.args) >= 3:
                    # only descriptors that store something *made from* the value (a copy, a conversion): one that
                    # validates and keeps the value itself behaves like a plain attribute as far as the value goes
                    vname = st_.args.args[2].arg
                    made = [c_ for c_ in ast.walk(st_) if isinstance(c_, ast.Call) and
                            any(isinstance(a_, ast.Name) and a_.id == vname for a_ in c_.args) and
                            ast.unparse(c_.func).rsplit(".", 1)[-1] in ("deepcopy", "copy", "list", "dict", "set", "tuple", "array",
                                                                         "asarray", "frozenset", "deque")]
                    if made:
                        return K
        return None

    def assign(self, target, val, events, st, aug=None):
        if isinstance(target, ast.Attribute) and self.is_self(target.value) and not self.field_prefix and \
                self._data_descriptor(target.attr) is not None:
            raise Unsupported(f"assignment to self.{target.attr} goes through the data descriptor "
                              f"{self._data_descriptor(target.attr).name}.__set__, which is not followed "
                              f"({self.module.path}:{st.lineno})")
        if isinstance(target, ast.Name):
            self.env[target.id] = val
            if aug is None and val[0] == "new" and self._private_class(val) is not None:
                # a local collaborator object of a private class: its attributes are tracked like fields
                prefix = f"%{target.id}:{st.lineno}:{len(self.stack)}"
                if self._adopt(prefix, val, events, st):
                    self.env[target.id] = ("owned", prefix + ".", val[2], val)
        elif isinstance(target, ast.Attribute) and isinstance(target.value, ast.Name) and \
                self.env.get(target.value.id, ("?",))[0] == "owned":
            attr = self.env[target.value.id][1] + target.attr
            self.fields[attr] = val
            events.append(Store(attr, val, st.lineno, aug))
        elif isinstance(target, ast.Attribute) and self.is_self(target.value) and self.cls is not None and \
                not self.field_prefix and self.descriptor(target.attr) is not None:
            desc = self.descriptor(target.attr)
            if desc[2][0] != "closure":
                raise Unsupported(f"assignment to the read-only property {target.attr} at {self.module.path}:{st.lineno}")
            self.inline_closure(desc[2], (("self",), val), (), events, st)
        elif isinstance(target, ast.Attribute) and self.is_self(target.value) and self.cls is not None and \
                self.prog.find_method(self.cls, target.attr + ".setter")[1] is not None and aug is None:
            c, m = self.prog.find_method(self.cls, target.attr + ".setter")
            self.inline(c, m, (val,), {}, events, st)          # assignment to a property runs its setter
        elif isinstance(target, ast.Attribute) and self.is_self(target.value) and self.cls is not None and \
                self.prog.find_method(self.cls, target.attr)[1] is not None and \
                any(ast.unparse(d) == "property" for d in self.prog.find_method(self.cls, target.attr)[1].decorator_list):
            raise Unsupported(f"assignment to the property {target.attr} at {self.module.path}:{st.lineno}")
        elif isinstance(target, ast.Attribute) and self.is_self(target.value):
            attr = self.fname(target.attr)
            names = record_names(val)
            if names and aug is None:
                # a record-valued field is written component by component (unchanged components are not writes)
                old = self.field(attr)
                for n in names:
                    new_c = attr_of(val, n)
                    if record_names(old) != names or attr_of(old, n) != new_c:
                        events.append(Store(f"{attr}.{n}", new_c, st.lineno, None))
                self.fields[attr] = val
                return
            self.fields[attr] = val
            events.append(Store(attr, val, st.lineno, aug))
            if aug is None:
                self._adopt(attr, val, events, st)
        elif isinstance(target, ast.Attribute) and isinstance(target.value, ast.Attribute) and \
                self.is_self(target.value.value) and self._owned_class(self.fname(target.value.attr)) is not None:
            attr = self.fname(target.value.attr) + "." + target.attr
            self.fields[attr] = val
            events.append(Store(attr, val, st.lineno, aug))
        elif isinstance(target, ast.Subscript):
            cont = self.expr(target.value, events)
            key = self.expr(target.slice, events)
            if cont[0] == "dictrec":
                if not (key[0] == "const" and key[1] in cont[2]):
                    raise Unsupported(f"store into self.{cont[1]} under a key that is not one of its constant keys at "
                                      f"{self.module.path}:{st.lineno}")
                attr = f"{cont[1]}.{key[1]}"
                self.fields[attr] = val
                events.append(Store(attr, val, st.lineno, aug))
                return
            if aug is None and self._object_choice(cont):
                # (A if c else B)[k] = v: the store goes to whichever object the condition picks
                arms = []
                for alt in (cont[2], cont[3]):
                    a_ = ast.Assign(targets=[ast.Subscript(value=_Term(alt, target.value), slice=_Term(key, target.slice),
                                                           ctx=ast.Store())], value=_Term(val, st), type_comment=None)
                    arms.append(_located(a_, st))
                ev, _, _ = self.block([_located(ast.If(test=_Term(cont[1], target.value), body=[arms[0]], orelse=[arms[1]]), st)])
                events.extend(ev)
                return
            inst = self._stateless_instance(cont)
            if inst is not None and aug is None:
                c, m = self.prog.find_method(inst, "__setitem__")
                if m is not None and self._can_inline_function(c.module, m):
                    self.inline_function(c.module, m, f"{c.qual}.__setitem__", (cont, key, val), {}, events, st, level=0)
                    return
            events.append(SubStore(cont, key, val, st.lineno, aug))
        elif isinstance(target, (ast.Tuple, ast.List)) and val[0] == "comp" and val[1] in ("gen", "list") and \
                val[4] is None and not val[6] and val[5][0] != "flat" and val[3][0] == "fn" and val[3][1] == "range" and \
                len(val[3][2]) == 1 and val[3][2][0] == ("const", len(target.elts)) and \
                not any(isinstance(e, ast.Starred) for e in target.elts):
            # a, b, c = (make() for _ in range(3)): one evaluation of the element expression per target, each its own
            for i, el in enumerate(target.elts):
                item = relabel_loop(subst(val[5], {("elem", val[2]): ("const", i)}), val[2], self.ids.next())
                self.assign(el, item, events, st)
        elif isinstance(target, (ast.Tuple, ast.List)) and val[0] == "comp" and val[1] in ("gen", "list") and \
                val[4] is None and not val[6] and val[5][0] != "flat" and val[3][0] == "tuple" and len(val[3]) == 2 and \
                len(val[3][1]) == len(target.elts) and not any(isinstance(e, ast.Starred) for e in target.elts) and \
                all(i[0] == "const" for i in val[3][1]):
            # a, b = (make(name) for name in ("x", "y")): the element expression once per constant
            for el, item in zip(target.elts, val[3][1]):
                self.assign(el, subst(val[5], {("elem", val[2]): item}), events, st)
        elif isinstance(target, (ast.Tuple, ast.List)) and sum(isinstance(e, ast.Starred) for e in target.elts) == 1 and \
                val[0] == "tuple" and len(val[1]) >= len(target.elts) - 1 and \
                not any(isinstance(x, tuple) and x and x[0] == "star" for x in val[1]):
            # a, *rest, z = (display of known length): the starred name takes the middle as a list
            k = next(i for i, e in enumerate(target.elts) if isinstance(e, ast.Starred))
            tail = len(target.elts) - k - 1
            items = val[1]
            for el, v in zip(target.elts[:k], items[:k]):
                self.assign(el, v, events, st)
            mid = items[k:len(items) - tail]
            self.assign(target.elts[k].value, ("new", self.site(target.elts[k]), "list", tuple(mid)), events, st)
            for el, v in zip(target.elts[k + 1:], items[len(items) - tail:]):
                self.assign(el, v, events, st)
        elif isinstance(target, (ast.Tuple, ast.List)):
            if val[0] == "tuple" and len(val[1]) == len(target.elts) and \
                    not any(isinstance(e, ast.Starred) for e in target.elts):
                for el, v in zip(target.elts, val[1]):
                    self.assign(el, v, events, st)
            else:
                for i, el in enumerate(target.elts):
                    self.assign(el, tget(val, i), events, st)
        elif isinstance(target, ast.Attribute):
            obj = self.expr(target.value, events)
            if _is_ns(obj):
                self.fields[_ns_key(obj) + target.attr] = val
                events.append(Store(_ns_key(obj) + target.attr, val, st.lineno, aug))
            else:
                events.append(AttrStore(obj, target.attr, val, st.lineno))
        else:
            raise Unsupported(f"assign target {ast.unparse(target)} at {self.module.path}:{st.lineno}")

    def _const_items(self, node):
        """Items of a tuple / list display of constants (written out, or a module-level constant), else None."""
        try:
            t = self._expr(node, []) if isinstance(node, (ast.Name, ast.Tuple, ast.List, ast.Attribute)) else None
        except Unsupported:
            return None
        if t is None:
            return None
        items = t[1] if (t[0] == "tuple" and len(t) == 2) else (t[3] if t[0] == "new" and t[2] == "list" and t[1] in self.prog.list_literals else None)
        if items is None or not (1 <= len(items) <= 4) or not all(isinstance(i, tuple) and i and i[0] == "const" for i in items):
            return None
        return items

    def _comp_as_loop(self, st):
        """`T = {k: v for x in it}` / `T = [v for x in it]` whose element rebinds variables of the function (a walrus,
        a call of a local function with `nonlocal` names) is the loop it abbreviates: the elements are computed in
        order, each seeing what the previous ones left behind."""
        got = getattr(st, "_as_loop", None)
        if got is not None:
            return got
        v = st.value
        if not (len(st.targets) == 1 and isinstance(st.targets[0], ast.Name) and
                isinstance(v, (ast.DictComp, ast.ListComp)) and len(v.generators) == 1 and not v.generators[0].is_async):
            return None
        g = v.generators[0]
        parts = [v.key, v.value] if isinstance(v, ast.DictComp) else [v.elt]

        def effectful(e):
            for n in ast.walk(e):
                if isinstance(n, ast.NamedExpr):
                    return True
                if isinstance(n, ast.Call) and isinstance(n.func, ast.Name) and \
                        self.env.get(n.func.id, ("?",))[0] == "closure" and self.env[n.func.id][1] in self.prog.closure_cells:
                    return True
            return False
        if not effectful(parts[-1]) or any(effectful(x) for x in parts[:-1] + [g.iter] + list(g.ifs)):
            return None
        bound = {n.id for n in ast.walk(g.target) if isinstance(n, ast.Name)}
        tname = st.targets[0].id
        if bound & set(self.env) or tname in bound:
            return None         # the comprehension's own variable would shadow a variable of the function
        init = ast.Assign(targets=[ast.Name(id=tname, ctx=ast.Store())],
                          value=ast.Dict(keys=[], values=[]) if isinstance(v, ast.DictComp) else ast.List(elts=[], ctx=ast.Load()),
                          type_comment=None)
        if isinstance(v, ast.DictComp):
            put = ast.Assign(targets=[ast.Subscript(value=ast.Name(id=tname, ctx=ast.Load()), slice=v.key, ctx=ast.Store())],
                             value=v.value, type_comment=None)
        else:
            put = ast.Expr(value=ast.Call(func=ast.Attribute(value=ast.Name(id=tname, ctx=ast.Load()), attr="append",
                                                             ctx=ast.Load()), args=[v.elt], keywords=[]))
        body = [put]
        for c in reversed(g.ifs):
            body = [ast.If(test=c, body=body, orelse=[])]
        loop = ast.For(target=g.target, iter=g.iter, body=body, orelse=[], type_comment=None)
        out = [init, loop]
        for s_ in out:
            ast.copy_location(s_, st)
            ast.fix_missing_locations(s_)
            for n in ast.walk(s_):
                if getattr(n, "end_lineno", None) is None:
                    n.end_lineno = getattr(st, "end_lineno", st.lineno)
        st._as_loop = out
        return out

    def assigned_names(self, body):
        names, fields = set(), set()
        for n in ast.walk(ast.Module(body=body, type_ignores=[])):
            if isinstance(n, ast.Yield) and self.consumer_state is not None:
                # the consumer of this generator runs here: what it carries from one yield to the next is carried
                # by the generator's loops
                names |= {"^" + x for x in self.consumer_state[0]}
                fields |= self.consumer_state[1]
            if isinstance(n, ast.Name) and isinstance(n.ctx, ast.Store):
                names.add(n.id)
            elif isinstance(n, ast.Name) and self.env.get(n.id, ("?",))[0] == "closure" and \
                    self.env[n.id][1] in self.prog.closure_cells:
                cells, definer = self.prog.closure_cells[self.env[n.id][1]]     # rebinds these when it is called
                if isinstance(definer, str):
                    fields |= {f"{definer}.{c}" for c in cells}
                else:
                    names |= cells
            elif isinstance(n, ast.Attribute) and isinstance(n.ctx, ast.Store) and self.is_self(n.value):
                fields.add(self.fname(n.attr))
            elif isinstance(n, ast.Attribute) and isinstance(n.ctx, ast.Store) and isinstance(n.value, ast.Attribute) and \
                    self.is_self(n.value.value) and self._owned_class(self.fname(n.value.attr)) is not None:
                fields.add(self.fname(n.value.attr) + "." + n.attr)
            elif isinstance(n, ast.Attribute) and isinstance(n.ctx, ast.Store) and isinstance(n.value, ast.Name) and \
                    self.env.get(n.value.id, ("?",))[0] == "owned":
                fields.add(self.env[n.value.id][1] + n.attr)
            elif isinstance(n, ast.Attribute) and isinstance(n.ctx, ast.Store) and isinstance(n.value, ast.Name) and \
                    _is_ns(self.env.get(n.value.id)):
                fields.add(_ns_key(self.env[n.value.id]) + n.attr)
        return names, fields

    def called_self_methods(self, body, seen=None):
        """Fields stored by helper methods reachable from a loop body (for loop-carried fields)."""
        seen = seen if seen is not None else set()
        fields = set()
        if self.cls is None and not any(v[0] == "owned" for v in self.env.values() if isinstance(v, tuple) and v):
            return fields
        for n in ast.walk(ast.Module(body=body, type_ignores=[])):
            if isinstance(n, ast.Call) and isinstance(n.func, ast.Attribute) and self.is_self(n.func.value) and \
                    self.cls is not None:
                c, m = self.prog.find_method(self.cls, n.func.attr)
                if m is not None and m not in seen:
                    seen.add(m)
                    sub = Summariser(self.prog, c.module, self.cls, m, owner=c)
                    sub.field_prefix = self.field_prefix
                    sub._owner_key = getattr(self, "_owner_key", None)
                    _, f2 = sub.assigned_names(m.body)
                    fields |= f2
                    fields |= sub.called_self_methods(m.body, seen)
            elif isinstance(n, ast.Call) and isinstance(n.func, ast.Attribute) and isinstance(n.func.value, ast.Name) and \
                    self.env.get(n.func.value.id, ("?",))[0] == "owned":
                o = self.env[n.func.value.id]
                K = self._private_class(o[3])
                c, m = self.prog.find_method(K, n.func.attr)
                if m is not None and m not in seen:
                    seen.add(m)
                    sub = Summariser(self.prog, c.module, K, m, owner=c)
                    sub.field_prefix = o[1]
                    sub._owner_key = self._root_key()
                    _, f2 = sub.assigned_names(m.body)
                    fields |= f2
                    fields |= sub.called_self_methods(m.body, seen)
            elif isinstance(n, ast.Call) and isinstance(n.func, ast.Attribute) and isinstance(n.func.value, ast.Attribute) and \
                    self.is_self(n.func.value.value):
                K = self._owned_class(self.fname(n.func.value.attr))
                if K is not None:
                    c, m = self.prog.find_method(K, n.func.attr)
                    if m is not None and m not in seen:
                        seen.add(m)
                        sub = Summariser(self.prog, c.module, K, m, owner=c)
                        sub.field_prefix = self.fname(n.func.value.attr) + "."
                        sub._owner_key = self.prog.mro(self.cls)[0].qual if not self.field_prefix else self._owner_key
                        _, f2 = sub.assigned_names(m.body)
                        fields |= f2
                        fields |= sub.called_self_methods(m.body, seen)
        return fields

    def _filled_by_position(self, st):
        """`L = [c] * n` ... `for i in range(n): ...; L[i] = v`: every slot of the preallocated list is overwritten, in
        order, once -- the loop `L = []` ... `L.append(v)`.  Returns the rewritten loop or None."""
        if not (isinstance(st, ast.For) and not st.orelse and isinstance(st.target, ast.Name) and
                isinstance(st.iter, ast.Call) and isinstance(st.iter.func, ast.Name) and st.iter.func.id == "range" and
                "range" not in self.env and len(st.iter.args) == 1 and not st.iter.keywords):
            return None
        i = st.target.id
        for pos, b in enumerate(st.body):
            if not (isinstance(b, ast.Assign) and len(b.targets) == 1 and isinstance(b.targets[0], ast.Subscript) and
                    isinstance(b.targets[0].value, ast.Name) and isinstance(b.targets[0].slice, ast.Name) and
                    b.targets[0].slice.id == i):
                continue
            name = b.targets[0].value.id
            cur = self.env.get(name)
            if not (cur and cur[0] == "op" and cur[1] == "*"):
                continue
            disp, n = (cur[2], cur[3]) if cur[2][0] == "new" else (cur[3], cur[2])
            if not (disp[0] == "new" and disp[2] == "list" and len(disp[3]) == 1 and disp[3][0][0] == "const"):
                continue
            if n != self._expr(st.iter.args[0], []):
                continue
            uses = [x for s_ in st.body for x in ast.walk(s_) if isinstance(x, ast.Name) and x.id == name]
            rebinds = [x for s_ in st.body for x in ast.walk(s_) if isinstance(x, ast.Name) and x.id == i and
                       isinstance(x.ctx, (ast.Store, ast.Del))]
            jumps = [x for s_ in st.body for x in ast.walk(s_) if isinstance(x, (ast.Break, ast.Continue, ast.Return))]
            if len(uses) != 1 or rebinds or jumps:
                continue
            put = ast.Expr(value=ast.Call(func=ast.Attribute(value=ast.Name(id=name, ctx=ast.Load()), attr="append", ctx=ast.Load()),
                                          args=[b.value], keywords=[]))
            body = list(st.body)
            body[pos] = _located(put, b)
            self.env[name] = ("new", disp[1], "list", ())
            self.prog.list_literals.add(disp[1])
            new = ast.For(target=st.target, iter=st.iter, body=body, orelse=[], type_comment=None)
            ast.copy_location(new, st)
            new.end_lineno = getattr(st, "end_lineno", st.lineno)
            return new
        return None

    def loop(self, st, events):
        is_while = isinstance(st, ast.While)
        filled = self._filled_by_position(st)
        if filled is not None:
            return self.loop(filled, events)
        lid = self.ids.next()
        elem_val = ("elem", lid)
        if not is_while and isinstance(st.iter, ast.Call) and not st.orelse and self._generator_loop(st, events):
            return
        if not is_while and isinstance(st.iter, ast.Name) and self.env.get(st.iter.id, ("?",))[0] == "genobj" and \
                self.env[st.iter.id][1] in self.prog.genobjs and not st.orelse and \
                self._generator_loop(st, events, self.prog.genobjs[self.env[st.iter.id][1]]):
            return
        if not is_while and not st.orelse and not isinstance(st.iter, _Term):
            walk = self._iterator_object_loop(st, events)
            if walk:
                return
            by_index = self._index_walk(st, events)
            if by_index is not None:
                return self.loop(by_index, events)
        if not is_while:
            it = self.iterated(self.expr(st.iter, events), events, st.iter)
            if getattr(st, "_next_of", None) is not None:
                self.prog.next_of[st._next_of] = elem_val
            if it[0] == "fn" and it[1] == "zip" and len(it[2]) >= 2 and isinstance(st.target, ast.Tuple) and \
                    len(st.target.elts) == len(it[2]) and not st.orelse and \
                    any(self._stream_step(a) is not None for a in it[2][1:]) and self._stream_step(it[2][0]) is None:
                # zip(A, stream): A is asked first, so the stream is advanced exactly once per element of A
                keep = [(t, a) for t, a in zip(st.target.elts, it[2]) if self._stream_step(a) is None]
                draws = []
                for t, a in zip(st.target.elts, it[2]):
                    if self._stream_step(a) is not None:
                        nx = ast.Assign(targets=[t], value=ast.Call(func=ast.Name(id="next", ctx=ast.Load()),
                                                                    args=[_Term(a, st.iter)], keywords=[]), type_comment=None)
                        ast.copy_location(nx, st)
                        ast.fix_missing_locations(nx)
                        for n in ast.walk(nx):
                            if getattr(n, "end_lineno", None) is None:
                                n.end_lineno = st.lineno
                        draws.append(nx)
                if "next" not in self.env and len(keep) >= 1:
                    if len(keep) == 1:
                        target, source = keep[0][0], keep[0][1]
                    else:
                        target = ast.Tuple(elts=[t for t, _ in keep], ctx=ast.Store())
                        source = ("fn", "zip", tuple(a for _, a in keep))
                    loop = ast.For(target=target, iter=_Term(source, st.iter), body=draws + list(st.body), orelse=[], type_comment=None)
                    ast.copy_location(loop, st)
                    loop.end_lineno = getattr(st, "end_lineno", st.lineno)
                    return self.loop(loop, events)
            if it[0] == "gate" and not st.orelse and not isinstance(st.iter, _Term) and _is_bool(it[1]) and \
                    it[2][0] in ("tuple", "comp", "new") and it[3][0] in ("tuple", "comp", "new"):
                # a walk over one of two displays chosen by a condition: each display is walked under its condition
                arms = []
                for alt in (it[2], it[3]):
                    loop = ast.For(target=st.target, iter=_Term(alt, st.iter), body=st.body, orelse=[], type_comment=None)
                    ast.copy_location(loop, st)
                    loop.end_lineno = getattr(st, "end_lineno", st.lineno)
                    loop._fuse = True
                    arms.append(loop)
                branch = ast.If(test=_Term(it[1], st.iter), body=[arms[0]], orelse=[arms[1]])
                ast.copy_location(branch, st)
                branch.end_lineno = getattr(st, "end_lineno", st.lineno)
                ev, term, ret = self.block([branch])
                events.extend(ev)
                return
            if self._unrollable(st, it):
                return self.unroll(st, it, events)
            if it[0] == "fn" and it[1] == "zip" and len(it[2]) == 2 and it[2][1] in self.prog.list_models:
                l1, it1, init1, v1 = self.prog.list_models[it[2][1]]
                if it1 == it[2][0] and not init1:
                    # zip(S, B) with B holding one value per element of S (appended by the earlier loop over S):
                    # this loop walks S again, pairing each element with the value computed for it then
                    elem_val = ("tuple", (("elem", lid), subst(v1, {("elem", l1): ("elem", lid)})))
                    it = it[2][0]
            # for x in (f(y) for y in ys): ...   is   for y in ys: x = f(y); ...   when f(y) has no effects
            while (isinstance(st.iter, (ast.GeneratorExp, ast.ListComp)) or getattr(st, "_fuse", False)) and \
                    it[0] == "comp" and it[1] in ("gen", "list") and it[4] is None and not it[6] and it[5][0] != "flat" \
                    and not any(isinstance(x, Loop) and x.lid == it[2] for x in events):
                elem_val = subst(elem_val, {("elem", lid): subst(it[5], {("elem", it[2]): ("elem", lid)})})
                it = it[3]
        names, fields = self.assigned_names(st.body)
        fields |= self.called_self_methods(st.body)
        env0, f0 = dict(self.env), dict(self.fields)
        exits0 = list(self.exits)
        carried_n = {n for n in names if n in env0}
        # a loop-carried tuple (`acc = (loss, credits)` rebuilt every iteration) is carried component by component;
        # a component that every iteration hands on unchanged is the value it had before the loop
        nosplit, invariant = set(), set()
        test_events = []
        list_facts = {}
        enum_start = None
        if not is_while and it[0] == "fn" and it[1] == "enumerate" and it[2]:
            st_arg = next((a[2] for a in it[2][1:] if isinstance(a, tuple) and a and a[0] == "kw" and a[1] == "start"),
                          it[2][1] if len(it[2]) > 1 and it[2][1][0] == "const" else ("const", 0))
            enum_start = st_arg[1] if st_arg[0] == "const" and isinstance(st_arg[1], int) else None
        for attempt in range(5):
            self.env, self.fields, self.exits = dict(env0), dict(f0), list(exits0)
            frame = {"lid": lid, "facts": len(self.facts), "stack": len(self.stack), "lists": {}, "done": set(),
                     "wanted": set(), "facts_in": dict(list_facts), "enum_start": enum_start, "prev": {}}
            self.list_frames.append(frame)
            split = {n: len(env0[n][1]) for n in carried_n
                     if n not in nosplit and env0[n][0] == "tuple" and len(env0[n]) == 2 and 2 <= len(env0[n][1]) <= 4}
            for n in carried_n:
                if n in split:
                    self.env[n] = ("tuple", tuple(env0[n][1][i] if (n, i) in invariant else ("mu", lid, f"{n}#{i}")
                                                  for i in range(split[n])))
                else:
                    self.env[n] = ("mu", lid, n)
            for f in fields:
                self.fields[f] = ("mu", lid, "self." + f)
            test_events = []
            if is_while:
                # the loop condition is evaluated on the loop-carried state; iteration count unknown
                it = ("while", self.expr(st.test, test_events))
            else:
                self.bind_target(st.target, elem_val)
            old_loops = self.loops
            self.loops = self.loops + (lid,)
            self.loop_marks.append((len(self.facts), []))
            try:
                ev, term, ret = self.block(st.body)
            finally:
                self.list_frames.pop()
            self.loops = old_loops
            _, jumps = self.loop_marks.pop()
            if term and not jumps:
                raise Unsupported(f"unconditional return/raise inside loop at {self.module.path}:{st.lineno}")
            if _has_exit(ev):
                raise Unsupported(f"return inside loop at {self.module.path}:{st.lineno}")
            end_env, end_fields = (None, None) if term else (self.env, self.fields)
            for k, v in self.fields.items():
                if k.startswith("%cell") and k not in fields and k in f0 and f0[k] != v:
                    raise Unsupported(f"closure state changed indirectly inside the loop at {self.module.path}:{st.lineno}")

            def merged(getter, end):
                v = end
                for kind, facts, env_j, fields_j in reversed(jumps):
                    vj = getter(env_j, fields_j)
                    cond = facts[0] if len(facts) == 1 else ("and", facts)
                    v = vj if v is None else gate(cond, vj, v)
                return v
            carried = {}
            retry = False
            for n in carried_n:
                nxt = merged(lambda e, f, n=n: e.get(n), None if term else end_env.get(n))
                if n in split:
                    if not (isinstance(nxt, tuple) and nxt and nxt[0] == "tuple" and len(nxt) == 2 and len(nxt[1]) == split[n]):
                        nosplit.add(n)
                        retry = True
                        continue
                    for i in range(split[n]):
                        if (n, i) in invariant:
                            if nxt[1][i] != env0[n][1][i]:
                                invariant.discard((n, i))
                                nosplit.add(n)
                                retry = True
                            continue
                        if nxt[1][i] == ("mu", lid, f"{n}#{i}"):
                            invariant.add((n, i))
                            retry = True
                        carried[f"{n}#{i}"] = (env0[n][1][i], nxt[1][i])
                else:
                    carried[n] = (env0[n], nxt)
            new_facts = {b: r["value"] for b, r in frame["lists"].items()
                         if r["n"] == 1 and not r["cond"] and not r["other"]}
            if set(new_facts) != set(list_facts) and (set(new_facts) & frame["wanted"] or set(list_facts) - set(new_facts)):
                retry = True
            list_facts = new_facts
            for b, (pname, pinit, pnext) in frame["prev"].items():
                carried[pname] = (pinit, pnext)
            if not retry:
                for b, v in new_facts.items():
                    inner = it[2][0] if (not is_while and it[0] == "fn" and it[1] == "enumerate" and it[2]) else it
                    self.prog.list_models[b] = (lid, inner, b[3], v)
                break
        else:
            raise Unsupported(f"loop-carried state does not stabilise at {self.module.path}:{st.lineno}")
        events.extend(test_events)
        for f in fields:
            carried["self." + f] = (f0.get(f, ("field0", f)),
                                    merged(lambda e, fl, f=f: fl.get(f, ("field0", f)),
                                           None if term else end_fields.get(f)))
        if term:
            # every path of the body jumps: continue with the state of the last snapshot set
            self.env, self.fields = dict(jumps[-1][2]), dict(jumps[-1][3])
        self.loop_iters[lid] = it
        events.append(Loop(lid, it, "" if is_while else ast.unparse(st.target), ev, carried, st.lineno, False))
        for n in names:
            if n in carried_n and n in split:
                self.env[n] = ("tuple", tuple(env0[n][1][i] if (n, i) in invariant else ("eta", lid, f"{n}#{i}")
                                              for i in range(split[n])))
            elif n in carried_n:
                self.env[n] = ("eta", lid, n)
            # names first assigned inside the loop stay bound to their last-iteration value
        for f in fields:
            self.fields[f] = ("eta", lid, "self." + f)
        if st.orelse:
            raise Unsupported(f"for-else at {self.module.path}:{st.lineno}")

    def _index_walk(self, st, events):
        """`for i in IDX: x = SEQ[i]; rest` with i used for nothing else  ->  `for x in [SEQ[i] for i in IDX]: rest`
        (also under enumerate); SEQ is an attribute of self or a name that the loop does not rebind or resize."""
        tgt, numbered = st.target, False
        if isinstance(tgt, ast.Tuple) and len(tgt.elts) == 2 and all(isinstance(x, ast.Name) for x in tgt.elts) and \
                isinstance(st.iter, ast.Call) and isinstance(st.iter.func, ast.Name) and st.iter.func.id == "enumerate" and \
                "enumerate" not in self.env and st.iter.args:
            idx, numbered = tgt.elts[1].id, True
        elif isinstance(tgt, ast.Name):
            idx = tgt.id
        else:
            return None
        if len(st.body) < 2:
            return None
        first = st.body[0]
        if not (isinstance(first, ast.Assign) and len(first.targets) == 1 and isinstance(first.targets[0], ast.Name) and
                isinstance(first.value, ast.Subscript) and isinstance(first.value.slice, ast.Name) and
                first.value.slice.id == idx and first.targets[0].id != idx):
            return None
        seq = first.value.value
        if isinstance(seq, ast.Attribute) and self.is_self(seq.value):
            def same(n):
                return isinstance(n, ast.Attribute) and n.attr == seq.attr and self.is_self(n.value)
        elif isinstance(seq, ast.Name):
            def same(n):
                return isinstance(n, ast.Name) and n.id == seq.id
        else:
            return None
        end = getattr(st, "end_lineno", st.lineno)
        for n in ast.walk(self.fn):
            if isinstance(n, ast.Name) and n.id == idx and n is not first.value.slice and \
                    (st.lineno <= n.lineno <= end and n not in ast.walk(tgt) or n.lineno > end):
                if isinstance(n.ctx, ast.Load) or st.lineno <= n.lineno <= end:
                    return None
        for b in st.body[1:]:
            for n in ast.walk(b):
                if same(n) and (isinstance(n.ctx, (ast.Store, ast.Del))):
                    return None
                if isinstance(n, ast.Call) and isinstance(n.func, ast.Attribute) and same(n.func.value) and n.func.attr in MUTATORS:
                    return None
                if isinstance(n, ast.Subscript) and isinstance(n.ctx, (ast.Store, ast.Del)) and same(n.value):
                    return None
        probe = []
        whole = self.expr(st.iter, probe)
        source = whole[2][0] if numbered and whole[0] == "fn" and whole[1] == "enumerate" and whole[2] else whole
        if numbered and source is whole:
            return None
        if not (source[0] == "draw" or (source[0] == "fn" and source[1] == "range")):
            return None             # only index orders: a random order of positions or a range of positions
        events.extend(probe)
        lid2 = self.ids.next()
        picked = ("comp", "list", lid2, source, None, ("sub", self.expr(seq, events), ("elem", lid2)), ())
        new_iter = ("fn", "enumerate", (picked,) + tuple(whole[2][1:])) if numbered else picked
        new_tgt = ast.Tuple(elts=[tgt.elts[0], first.targets[0]], ctx=ast.Store()) if numbered else first.targets[0]
        loop = ast.For(target=new_tgt, iter=_Term(new_iter, st.iter), body=list(st.body[1:]), orelse=[], type_comment=None)
        ast.copy_location(loop, st)
        loop.end_lineno = end
        ast.fix_missing_locations(new_tgt)
        return loop

    def _iterator_object_loop(self, st, events):
        """`for T in obj` with obj a collaborator object of a private iterator class (`__iter__` returns self) whose
        `__next__` advances exactly one underlying iterator `self.F = iter(S)` and stops only when that one stops:
        the loop walks S, and each step binds T to what `__next__` returns for that element."""
        if not isinstance(st.iter, ast.Name) or self.env.get(st.iter.id, ("?",))[0] != "owned":
            return False
        o = self.env[st.iter.id]
        K = self._private_class(o[3])
        if K is None:
            return False
        _, nxt = self.prog.find_method(K, "__next__")
        _, itr = self.prog.find_method(K, "__iter__")
        if nxt is None or itr is None:
            return False
        body = [x for x in itr.body if not (isinstance(x, ast.Expr) and isinstance(x.value, ast.Constant))]
        if not (len(body) == 1 and isinstance(body[0], ast.Return) and isinstance(body[0].value, ast.Name) and
                itr.args.args and body[0].value.id == itr.args.args[0].arg):
            return False
        me = nxt.args.args[0].arg
        calls = [n for c in self.prog.mro(K) for n in ast.walk(c.node)
                 if isinstance(n, ast.Call) and isinstance(n.func, ast.Name) and n.func.id == "next"]
        stops = [n for c in self.prog.mro(K) for n in ast.walk(c.node) if isinstance(n, ast.Name) and n.id == "StopIteration"]
        own = [n for n in ast.walk(nxt) if n in calls]
        if len(calls) != 1 or len(own) != 1 or stops or len(own[0].args) != 1:
            return False
        a = own[0].args[0]
        if not (isinstance(a, ast.Attribute) and isinstance(a.value, ast.Name) and a.value.id == me):
            return False
        fld = o[1] + a.attr
        cur = self.fields.get(fld)
        if cur is None or not (cur[0] == "fn" and cur[1] == "iter" and len(cur[2]) == 1):
            return False
        if any(isinstance(n, (ast.Break, ast.Return)) for b in st.body for n in ast.walk(b)):
            return False                # an early exit would leave the underlying iterator half consumed
        step = ast.Assign(targets=[st.target], value=ast.Call(
            func=ast.Attribute(value=ast.Name(id=st.iter.id, ctx=ast.Load()), attr="__next__", ctx=ast.Load()),
            args=[], keywords=[]), type_comment=None)
        loop = ast.For(target=ast.Name(id=f"_it_e{st.lineno}", ctx=ast.Store()), iter=_Term(cur[2][0], st.iter),
                       body=[step] + list(st.body), orelse=[], type_comment=None)
        ast.copy_location(step, st)
        ast.copy_location(loop, st)
        ast.fix_missing_locations(step)
        for n in ast.walk(step):
            if not hasattr(n, "end_lineno") or n.end_lineno is None:
                n.end_lineno = st.lineno
        loop._next_of = cur
        try:
            self.loop(loop, events)
        finally:
            self.prog.next_of.pop(cur, None)
        return True

    # -- lists filled by a loop, one element per iteration ------------------------------------------------
    def _note_list_mutation(self, recv, meth, args):
        if not self.list_frames or not (recv[0] == "new" and recv[2] == "list" and recv[1] in self.prog.list_literals):
            return
        fr = self.list_frames[-1]
        created_inside = fr["lid"] in (site_loops(recv) or ())
        if created_inside:
            return
        rec = fr["lists"].setdefault(recv, {"n": 0, "cond": False, "value": None, "other": False})
        if meth != "append" or len(args) != 1:
            rec["other"] = True
            return
        rec["n"] += 1
        rec["value"] = args[0]
        if len(self.facts) > fr["facts"] or self.loops[-1:] != (fr["lid"],) or len(self.stack) != fr["stack"]:
            rec["cond"] = True          # under a branch, in a nested loop, or inside an inlined helper
        else:
            fr["done"].add(recv)

    def _list_element(self, base, idx):
        """B[k] / B[k-1] inside the loop that appends one element to B per iteration, k the enumeration index."""
        if not self.list_frames or not (base[0] == "new" and base[2] == "list" and base[1] in self.prog.list_literals):
            return None
        fr = self.list_frames[-1]
        if fr["lid"] in (site_loops(base) or ()):
            return None
        fr["wanted"].add(base)
        v = fr["facts_in"].get(base)
        if v is None or base not in fr["done"]:
            return None
        if idx[0] == "const" and idx[1] in (-1, -2) and not isinstance(idx[1], bool):
            # counted from the end right after this iteration's append: the new element / the one before it
            if idx[1] == -1:
                return v
            if len(base[3]) >= 1:
                name = f"#prev:{len(fr['prev'])}" if base not in fr["prev"] else fr["prev"][base][0]
                fr["prev"].setdefault(base, (name, base[3][-1], v))
                return ("mu", fr["lid"], fr["prev"][base][0])
            return None
        if fr["enum_start"] is None:
            return None
        k = ("tget", ("elem", fr["lid"]), 0)

        def offset(t):
            if t == k:
                return 0
            if t[0] == "op" and t[1] in ("+", "-") and t[2] == k and t[3][0] == "const" and isinstance(t[3][1], int):
                return t[3][1] if t[1] == "+" else -t[3][1]
            return None
        n0 = len(base[3])
        if idx[0] == "const" and isinstance(idx[1], int) and not isinstance(idx[1], bool) and 0 <= idx[1] < n0:
            return base[3][idx[1]]                      # an initial element: appends never move it
        if idx[0] == "slice" and idx[2] == ("const", None) and idx[3] == ("const", None):
            # B[k+c:] right after this iteration's append: the last one or two elements
            c = offset(idx[1])
            if c is None:
                return None
            if c == n0 - fr["enum_start"]:
                return ("tuple", (v,))
            if c == n0 - fr["enum_start"] - 1 and n0 >= 1:
                return ("tuple", (self._list_element(base, idx[1]), v))
            return None
        c = offset(idx)
        if c is None:
            return None
        if c == n0 - fr["enum_start"]:
            return v                                    # the element appended in this iteration
        if c == n0 - fr["enum_start"] - 1 and n0 >= 1:
            name = f"#prev:{len(fr['prev'])}" if base not in fr["prev"] else fr["prev"][base][0]
            fr["prev"].setdefault(base, (name, base[3][-1], v))
            return ("mu", fr["lid"], fr["prev"][base][0])   # the element appended by the previous iteration
        return None

    def _with_object(self, st):
        """`with _Manager(...) as v: body` for a private package class with __enter__ / __exit__: on the path where the
        block ends normally this is `m = _Manager(...); v = m.__enter__(); body; m.__exit__(None, None, None)`.
        (What __exit__ does with an exception is judged by the rules that care, from its definition.)"""
        got = getattr(st, "_as_statements", None)
        if got is not None:
            return got
        item = st.items[0]
        call = item.context_expr
        if not isinstance(call, ast.Call) or not isinstance(call.func, (ast.Name, ast.Attribute)):
            return None
        K = self.prog.resolve_class(self.module, call.func)
        if K is None or not K.name.startswith("_") or K.record_fields is not None or self.prog.ext_bases(K):
            return None
        ce, enter = self.prog.find_method(K, "__enter__")
        cx, exit_ = self.prog.find_method(K, "__exit__")
        if enter is None or exit_ is None:
            return None
        if any(isinstance(n, (ast.Return, ast.Break, ast.Continue, ast.Yield, ast.YieldFrom)) for b in st.body for n in ast.walk(b)):
            return None
        if item.optional_vars is not None and not isinstance(item.optional_vars, ast.Name):
            return None
        mgr = f"with@{st.lineno}:{st.col_offset}"
        out = [ast.Assign(targets=[ast.Name(id=mgr, ctx=ast.Store())], value=call, type_comment=None)]
        rets = [n for n in _own_nodes(enter.body) if isinstance(n, ast.Return)]
        me = enter.args.args[0].arg if enter.args.args else None
        hands_out_itself = bool(rets) and all(isinstance(r.value, ast.Name) and r.value.id == me for r in rets)
        entered = ast.Call(func=ast.Attribute(value=ast.Name(id=mgr, ctx=ast.Load()), attr="__enter__", ctx=ast.Load()),
                           args=[], keywords=[])
        if item.optional_vars is None or hands_out_itself:
            out.append(ast.Expr(value=entered))
            if item.optional_vars is not None:
                out.append(_Alias(item.optional_vars.id, mgr))
        else:
            out.append(ast.Assign(targets=[item.optional_vars], value=entered, type_comment=None))
        out.extend(st.body)
        none = ast.Constant(value=None)
        out.append(ast.Expr(value=ast.Call(func=ast.Attribute(value=ast.Name(id=mgr, ctx=ast.Load()), attr="__exit__", ctx=ast.Load()),
                                           args=[none, none, none], keywords=[])))
        out = [b if b in st.body else _located(b, st) for b in out]
        st._as_statements = out
        return out

    def _with_contextmanager(self, st, events):
        """`with cm(...) as v: body` for a package function decorated with contextlib.contextmanager that
        yields exactly once at the top level of its body (no try around the yield): the code before the
        yield, the block, the code after the yield -- the latter only when the block ends normally."""
        item = st.items[0]
        call = item.context_expr
        if not isinstance(call, ast.Call):
            return None
        target = self._callee_def(call)
        if target is None:
            return None
        c, module, fn, is_method = target
        if not any(ast.unparse(d) in ("contextmanager", "contextlib.contextmanager") for d in fn.decorator_list):
            return None
        ys = self._yields(fn)
        top = [b for b in fn.body if isinstance(b, ast.Expr) and isinstance(b.value, ast.Yield)]
        if len(ys) != 1 or len(top) != 1 or top[0].value is not ys[0]:
            return None
        state = {}

        def consumer(val, gen, yst):
            if item.optional_vars is not None:
                self.assign(item.optional_vars, val, [], st)
            ev, term, ret = self.block(st.body)
            state["term"], state["ret"] = term, ret
            return [With((val,), ev, st.lineno)]
        res = self.run_generator(call, events, consumer, split_at=lambda f: top[0], stop=lambda: state.get("term"))
        if res is None:
            return None
        return bool(state.get("term")), state.get("ret")

    def _generator_loop(self, st, events, genobj=None):
        """`for v in gen(...): body` with gen a package generator function: the body runs at each yield."""
        if any(isinstance(n, (ast.Break, ast.Continue, ast.Return, ast.Yield, ast.YieldFrom))
               for b in st.body for n in ast.walk(b)):
            return False
        names, fields = self.assigned_names(st.body)
        targets = {n.id for n in ast.walk(st.target) if isinstance(n, ast.Name)}
        carried = (names - targets) & set(self.env)
        cfields = fields | self.called_self_methods(st.body)
        if self.on_yield is not None and (carried or cfields):
            return False                # a generator consuming a generator while carrying state

        def consumer(val, gen, yst):
            self.bind_target(st.target, val)
            ev, term, ret = self.block(st.body)
            if term:
                raise Unsupported(f"terminating loop body at {self.module.path}:{st.lineno}")
            return ev
        if genobj is not None:
            return self.run_generator(genobj[0], events, consumer, params=dict(genobj[1]),
                                      carried=carried, cfields=cfields) is not None
        return self.run_generator(st.iter, events, consumer, carried=carried, cfields=cfields) is not None

    @staticmethod
    def _holds_call(t):
        """A callable with its arguments: a partial / closure / function, or a tuple display starting with one."""
        def callable_(x):
            return x[0] in ("partial", "closure") or (x[0] == "global" and not x[1].startswith("?")) or \
                (x[0] == "attr" and isinstance(x[2], str))
        return callable_(t) or (t[0] == "tuple" and len(t) == 2 and t[1] and callable_(t[1][0]))

    def _queue_attribute(self, fld):
        """Is the attribute behind the component `%object.attr` used by the collaborator's class only as a list that
        is created empty, appended to and walked?"""
        attr = fld.rsplit(".", 1)[1]
        K = self.prog.owned.get((self._root_key(), fld.rsplit(".", 1)[0]))
        if K is None:
            return False
        for k in self.prog.mro(K):
            parents = {}
            for n in ast.walk(k.node):
                for ch in ast.iter_child_nodes(n):
                    parents[ch] = n
            for n in ast.walk(k.node):
                if not (isinstance(n, ast.Attribute) and n.attr == attr):
                    continue
                p = parents.get(n)
                q = parents.get(p)
                if isinstance(n.ctx, ast.Store):
                    if isinstance(p, (ast.Assign, ast.AnnAssign)) and isinstance(p.value, ast.List) and not p.value.elts:
                        continue
                    return False
                if isinstance(p, ast.Attribute) and p.attr == "append" and isinstance(q, ast.Call) and q.func is p:
                    continue
                if isinstance(p, ast.For) and p.iter is n:
                    continue
                if isinstance(p, ast.Call) and isinstance(p.func, ast.Name) and p.func.id == "len":
                    continue
                if isinstance(p, (ast.If, ast.While)) and p.test is n:
                    continue
                return False
        return True

    def _queue_of_calls(self, name):
        """Is the local `name` used in this function only as a list that is created by a display, appended to and
        walked (`name = []`, `name.append(...)`, `for x in name`, `len(name)`, `if name`)?  Then no other name can
        denote the list and appending can be followed as a change of the value of `name`."""
        parents = {}
        for n in ast.walk(self.fn):
            for ch in ast.iter_child_nodes(n):
                parents[ch] = n
        for n in ast.walk(self.fn):
            if not (isinstance(n, ast.Name) and n.id == name):
                continue
            p = parents.get(n)
            q = parents.get(p)
            inner = p
            while inner is not None and inner is not self.fn:
                if isinstance(inner, (ast.FunctionDef, ast.Lambda, ast.AsyncFunctionDef)):
                    return False            # captured by a nested function
                inner = parents.get(inner)
            if isinstance(n.ctx, ast.Store):
                if isinstance(p, (ast.Assign, ast.AnnAssign)) and isinstance(p.value, ast.List) and not p.value.elts:
                    continue
                return False
            if isinstance(p, ast.Attribute) and p.attr == "append" and isinstance(q, ast.Call) and q.func is p:
                continue
            if isinstance(p, ast.For) and p.iter is n:
                continue
            if isinstance(p, ast.Call) and isinstance(p.func, ast.Name) and p.func.id == "len":
                continue
            if isinstance(p, (ast.If, ast.While)) and p.test is n:
                continue
            if isinstance(p, ast.UnaryOp) and isinstance(p.op, ast.Not):
                continue
            return False
        return True

    def _display_items(self, it, literal_list=False):
        if it[0] == "tuple":
            return it[1]
        if it[0] == "new" and it[2] == "list" and it[1] in self.prog.queue_lists and \
                not any(isinstance(x, tuple) and x and x[0] == "star" for x in it[3]):
            return it[3]
        # ("new", site, "list", items) is both `[a, b]` and `list(a)`: only the literal in the loop header counts
        if literal_list and it[0] == "new" and it[2] == "list" and \
                not any(isinstance(x, tuple) and x and x[0] == "star" for x in it[3]):
            return it[3]
        return None

    def _unrollable(self, st, it):
        """A loop over a tuple / list display (or a selection between displays) of at most 4 items whose
        body has no jump: it is the body repeated once per item."""
        def ok(t):
            if t[0] == "gate":
                return ok(t[2]) and ok(t[3])
            items = self._display_items(t, _plain_list(st.iter))
            return items is not None and len(items) <= 4
        if not ok(it) or st.orelse:
            return False
        return not any(isinstance(n, (ast.Break, ast.Continue, ast.Return, ast.Raise, ast.Yield, ast.YieldFrom))
                       for b in st.body for n in ast.walk(b))

    def unroll(self, st, it, events):
        if it[0] == "gate":
            cond = it[1]
            env0, f0 = dict(self.env), dict(self.fields)
            ev_t, ev_e = [], []
            self.facts.append(cond)
            self.unroll(st, it[2], ev_t)
            self.facts.pop()
            env_t, f_t = self.env, self.fields
            self.env, self.fields = dict(env0), dict(f0)
            self.facts.append(negate(cond))
            self.unroll(st, it[3], ev_e)
            self.facts.pop()
            events.append(If(cond, ev_t, ev_e, st.lineno, False))
            self.env = self.merge(cond, env_t, self.env)
            self.fields = self.merge(cond, f_t, self.fields, field=True)
            return
        items = self._display_items(it, _plain_list(st.iter))
        for i, item in enumerate(items):
            self.bind_target(st.target, item)
            saved = self.stack
            if i:
                # what the body creates is created once per item: the creation sites of later items are their own
                self.stack = self.stack + (f"item{i}@{st.lineno}",)
            try:
                ev, term, ret = self.block(st.body)
            finally:
                self.stack = saved
            if term:
                raise Unsupported(f"terminating loop body at {self.module.path}:{st.lineno}")
            events.extend(ev)

    def bind_target(self, target, val):
        if isinstance(target, ast.Name):
            self.env[target.id] = val
        elif isinstance(target, (ast.Tuple, ast.List)):
            for i, el in enumerate(target.elts):
                self.bind_target(el, tget(val, i))
        else:
            raise Unsupported(f"loop target {ast.unparse(target)}")

    def try_(self, st, events):
        """returns (terminated, ret)"""
        if st.finalbody:
            raise Unsupported(f"finally at {self.module.path}:{st.lineno}")
        env0, f0 = dict(self.env), dict(self.fields)
        probe = None
        if len(st.body) == 1 and isinstance(st.body[0], (ast.Assign, ast.Expr, ast.AnnAssign)) and \
                isinstance(st.body[0].value, ast.Subscript) and isinstance(st.body[0].value.ctx, ast.Load) and \
                all(isinstance(t, ast.Name) for t in getattr(st.body[0], "targets", [])) and \
                not any(isinstance(n, (ast.Call, ast.NamedExpr, ast.Await)) for n in ast.walk(st.body[0].value)):
            scratch = []
            probe = (self.expr(st.body[0].value.value, scratch), self.expr(st.body[0].value.slice, scratch))
            if scratch or probe[0][0] == "sub" and False:
                probe = None
        ev_b, term_b, ret_b = self.block(st.body)
        else_from = None
        if st.orelse and not term_b:
            ev_o, term_b, ret_b = self.block(st.orelse)
            else_from = len(ev_b)
            ev_b = ev_b + ev_o
        env_b, f_b = self.env, self.fields
        handlers = []
        envs, fss, rets, terms = [env_b], [f_b], [ret_b], [term_b]
        for h in st.handlers:
            # state at handler entry: unknown point of the body -> names assigned in the body are
            # unknown; we use the entry state for names not assigned in the body.
            self.env, self.fields = dict(env0), dict(f0)
            bn, bf = self.assigned_names(st.body)
            for n in bn:
                if n in env_b and env_b.get(n) != env0.get(n):
                    self.env[n] = ("tryphi", st.lineno, n)
            for f in bf:
                self.fields[f] = ("tryphi", st.lineno, "self." + f)
            if h.name:
                self.env[h.name] = ("exc", h.lineno)
            ev_h, term_h, ret_h = self.block(h.body)
            exc = self._exc_names(h.type)
            handlers.append(Handler(exc, h.name, ev_h, term_h, ret_h, h.lineno,
                                    probe if (not ev_b[:else_from] and "KeyError" in exc) else None))
            envs.append(self.env)
            fss.append(self.fields)
            rets.append(ret_h)
            terms.append(term_h)
        tid = self.ids.next()
        events.append(Try(tid, ev_b, handlers, st.lineno, else_from))
        live = [i for i, t in enumerate(terms) if not t]
        if not live:
            self.env, self.fields = env_b, f_b
            return True, ("tryret", tid, tuple(r if r is not None else ("raise",) for r in rets))
        out_env = {}
        for k in set().union(*[set(envs[i]) for i in live]):
            vals = {envs[i].get(k, ("undef",)) for i in live}
            by_val = {}
            for i in live:
                by_val.setdefault(envs[i].get(k, ("undef",)), i)       # arm 0 = try body, arm j = j-th handler
            out_env[k] = vals.pop() if len(vals) == 1 else ("tryphi", tid, k, tuple(by_val), tuple(by_val.values()))
        out_f = {}
        for k in set().union(*[set(fss[i]) for i in live]):
            vals = {fss[i].get(k, ("field0", k)) for i in live}
            out_f[k] = vals.pop() if len(vals) == 1 else ("tryphi", tid, "self." + k)
        self.env, self.fields = out_env, out_f
        return False, None

    def _exc_names(self, t):
        if t is None:
            return ("BaseException",)
        if isinstance(t, ast.Tuple):
            return tuple(ast.unparse(x) for x in t.elts)
        return (ast.unparse(t),)

    # -- expressions -----------------------------------------------------------------------------
    def expr(self, e, events):
        t = self._expr(e, events)
        return assume(t, self.facts) if self.facts else t

    def _expr(self, e, events):
        if e is None:
            return ("const", None)
        if isinstance(e, _Term):
            return e.term
        if isinstance(e, ast.Constant):
            return ("const", e.value)
        if isinstance(e, ast.Name):
            if e.id in self.env:
                return assume(self.env[e.id], self.facts) if self.facts else self.env[e.id]
            if self.is_self(e):
                return ("self",)
            if e.id == "__dataclass_MISSING__":
                return MISSING
            r = self.prog.resolve_name(self.module, e.id)
            if r and r[0] == "const":
                m, node = r[1]
                if isinstance(node, ast.Constant):
                    return ("const", node.value)
                v = self._const_term(m, node) if e.id not in self.prog.mutated_names else None
                return v if v is not None else ("global", f"{m.name}.{e.id}")
            if r and r[0] == "class":
                return ("global", r[1].qual)
            if r and r[0] == "func":
                return ("global", f"{r[1][0].name}.{r[1][1].name}")
            if r and r[0] == "ext":
                return ("global", r[1])
            if r and r[0] == "module":
                return ("global", r[1].name)
            if e.id in PURE_BUILTINS or e.id in FRESH_BUILTINS or e.id in EXC_NAMES or \
                    e.id in ("True", "False", "None", "super", "object", "NotImplemented", "Ellipsis"):
                return ("global", "builtins." + e.id)
            return ("global", "?" + e.id)
        if isinstance(e, ast.Attribute):
            if e.attr in self.prog.registry_attrs:
                raise Unsupported(f"{ast.unparse(e)[:60]} at {self.module.path}:{e.lineno} is filled while subclasses are being "
                                  f"created (a registry); its contents are not followed")
            if isinstance(e.value, ast.Name) and e.value.id not in self.env:
                K = None
                if self.is_classmethod and e.value.id == self.self_name and (self.cm_cls or self.cls) is not None:
                    K = self.cm_cls or self.cls
                else:
                    r = self.prog.resolve_name(self.module, e.value.id)
                    K = r[1] if r and r[0] == "class" else None
                if K is not None and K.enum_members is not None and e.attr in K.enum_members:
                    return self.enum_member(K, e.attr)
            if self.is_self(e.value):
                if self.cls is not None and not self.field_prefix:
                    desc = self.descriptor(e.attr)
                    if desc is not None and desc[1][0] == "closure":
                        return self.inline_closure(desc[1], (("self",),), (), events, e)
                if self.cls is not None:
                    c, m = self.prog.find_method(self.cls, e.attr)
                    if m is not None and any(ast.unparse(d) in ("property", "functools.cached_property",
                                                                 "cached_property") for d in m.decorator_list):
                        return self.inline(c, m, (), {}, events, e)
                    if m is not None:
                        return ("global", f"{c.qual}.{e.attr}")
                    if self.fname(e.attr) not in self.fields and e.attr not in self.prog.instance_attrs(self.cls):
                        # a class-level attribute that no method ever assigns on the instance
                        for k in self.prog.mro(self.cls):
                            if e.attr in k.class_attrs:
                                # names in the class body are names of the module that defines the class
                                cnode = k.class_attrs[e.attr]
                                if isinstance(cnode, ast.Call) and isinstance(cnode.func, (ast.Name, ast.Attribute)):
                                    DK = self.prog.resolve_class(k.module, cnode.func)
                                    if DK is not None and (self.prog.find_method(DK, "__get__")[1] is not None or any(
                                            str(b).rsplit(".", 1)[-1] == "property" for b in self.prog.ext_bases(DK))):
                                        raise Unsupported(f"{k.name}.{e.attr} is a descriptor object ({DK.name}) whose __get__ is not "
                                                          f"followed, read at {self.module.path}:{e.lineno}")
                                v = self._const_term(k.module, k.class_attrs[e.attr]) if e.attr not in self.prog.mutated_attrs else None
                                if v is None and isinstance(k.class_attrs[e.attr], ast.Name):
                                    r = self.prog.resolve_name(k.module, k.class_attrs[e.attr].id)
                                    if r and r[0] == "module":
                                        v = ("global", r[1].name)
                                return v if v is not None else self._expr(k.class_attrs[e.attr], events)
                return self.field(self.fname(e.attr))
            if isinstance(e.value, ast.Name) and self.env.get(e.value.id, ("?",))[0] == "owned":
                o = self.env[e.value.id]
                K = self._private_class(o[3])
                c, m = self.prog.find_method(K, e.attr)
                if m is not None and any(ast.unparse(d) in ("property", "functools.cached_property", "cached_property")
                                         for d in m.decorator_list):
                    return self._inline_owned(K, o[1][:-1], c, m, (), {}, events, e)
                if m is None:
                    return self.field(o[1] + e.attr)
            if isinstance(e.value, ast.Attribute) and self.is_self(e.value.value):
                # self.<owned collaborator>.<attr>: a component of this instance's state
                K = self._owned_class(self.fname(e.value.attr))
                if K is not None:
                    c, m = self.prog.find_method(K, e.attr)
                    if m is not None and any(ast.unparse(d) in ("property", "functools.cached_property",
                                                                 "cached_property") for d in m.decorator_list):
                        return self._inline_owned(K, self.fname(e.value.attr), c, m, (), {}, events, e)
                    if m is None:
                        return self.field(self.fname(e.value.attr) + "." + e.attr)
            d = self.prog.dotted_of(self.module, e)
            if d is not None:
                r = self.prog.resolve_dotted(d)
                if r[0] == "const" and isinstance(r[1][1], ast.Constant):
                    return ("const", r[1][1].value)
                return ("global", d)
            v = self._expr(e.value, events)
            if v[0] == "outer":
                rk = self._root_key()
                root = self.prog.cls(rk) if isinstance(rk, str) and not rk.startswith("<") else None
                if v[1] or root is None or self.prog.find_method(root, e.attr)[1] is not None:
                    raise Unsupported(f"attribute of the owning object at {self.module.path}:{e.lineno} {ast.unparse(e)[:60]}")
                return self.field(e.attr)
            if v[0] == "enum" and e.attr in ("value", "_value_") and v[3] is not None:
                return v[3]
            if v[0] == "enum" and e.attr in ("name", "_name_"):
                return ("const", v[2])
            if v[0] == "enum":
                K = self.prog.cls(v[1])
                c, m = self.prog.find_method(K, e.attr)
                if m is not None and any(ast.unparse(d) == "property" for d in m.decorator_list) and \
                        self._can_inline_function(c.module, m):
                    return self.inline_function(c.module, m, f"{c.qual}.{e.attr}", (v,), {}, events, e, level=0)
            if v[0] == "gate" and all(l[0] == "enum" for l in _gate_leaves(v)) and e.attr in ("value", "name", "_value_", "_name_"):
                pick = (lambda l: l[3]) if e.attr in ("value", "_value_") else (lambda l: ("const", l[2]))
                if all(pick(l) is not None for l in _gate_leaves(v)):
                    def rebuild(t):
                        return gate(t[1], rebuild(t[2]), rebuild(t[3])) if t[0] == "gate" else pick(t)
                    return rebuild(v)
            if _is_ns(v):
                key = _ns_key(v) + e.attr
                if key not in self.fields:
                    raise Unsupported(f"attribute {e.attr} of a namespace read before it is set at {self.module.path}:{e.lineno}")
                return assume(self.fields[key], self.facts) if self.facts else self.fields[key]
            if v[0] == "gate" and record_names(v[2]) and record_names(v[3]) and not isinstance(e.value, _Term):
                # an attribute / property of a selection between two records: taken on whichever record is selected
                parts = []
                for arm, fact in ((v[2], v[1]), (v[3], negate(v[1]))):
                    node = ast.Attribute(value=_Term(arm, e.value), attr=e.attr, ctx=ast.Load())
                    ast.copy_location(node, e)
                    node.end_lineno = getattr(e, "end_lineno", e.lineno)
                    self.facts.append(fact)
                    try:
                        parts.append(self._expr(node, events))
                    finally:
                        self.facts.pop()
                return gate(v[1], parts[0], parts[1])
            names = record_names(v) if v[0] == "tuple" else None
            if names and e.attr not in names:
                # a property of the immutable record class, read on a record display
                quals = self.prog.record_classes.get(tuple(names), set())
                if len(quals) == 1:
                    mod, cname = next(iter(quals)).rsplit(".", 1)
                    K = self.prog.modules[mod].classes[cname]
                    c, m = self.prog.find_method(K, e.attr)
                    if m is not None and any(ast.unparse(d) == "property" for d in m.decorator_list) and \
                            self._can_inline_function(c.module, m):
                        return self.inline_function(c.module, m, f"{c.qual}.{e.attr}", (v,), {}, events, e, level=0)
            return attr_of(v, e.attr)
        if isinstance(e, ast.BinOp):
            if isinstance(e.op, ast.Mod) and isinstance(e.left, ast.Constant) and isinstance(e.left.value, str):
                right = self._expr(e.right, events)
                args = right[1] if right[0] == "tuple" and len(right) == 2 else (right,)
                built = _format_percent(e.left.value, args)
                if built is not None:
                    return built
                return ("op", "%", ("const", e.left.value), right)
            left, right = self._expr(e.left, events), self._expr(e.right, events)
            if isinstance(e.op, ast.Mult):
                for disp, n, node in ((left, right, e.left), (right, left, e.right)):
                    if isinstance(node, ast.List) and len(node.elts) == 1 and not isinstance(node.elts[0], ast.Starred) and \
                            disp[0] == "new" and disp[2] == "list" and len(disp[3]) == 1 and \
                            disp[3][0][0] not in ("const",):
                        # [v] * n: the one value, n times -- the list `[v for _ in range(n)]`
                        return ("comp", "list", self.ids.next(), ("fn", "range", (n,)), None, disp[3][0], ())
            return ("op", BINOPS[type(e.op)], left, right)
        if isinstance(e, ast.UnaryOp):
            v = self._expr(e.operand, events)
            if isinstance(e.op, ast.Not):
                if v[0] == "gate" and all(l[0] == "enum" for l in _gate_leaves(v)):
                    v = truth(v)            # a selection between members: true exactly on the arms with true members
                return negate(v)
            if isinstance(e.op, ast.USub):
                if v[0] == "const" and isinstance(v[1], (int, float)) and not isinstance(v[1], bool):
                    return ("const", -v[1])
                return ("neg", v)
            if isinstance(e.op, ast.UAdd):
                return v
            return ("fn", "invert", (v,))
        if isinstance(e, ast.BoolOp):
            return ("and" if isinstance(e.op, ast.And) else "or", tuple(self._expr(v, events) for v in e.values))
        if isinstance(e, ast.Compare):
            left = self._expr(e.left, events)
            parts = []
            for op, right in zip(e.ops, e.comparators):
                r = self._expr(right, events)
                if isinstance(op, (ast.Is, ast.IsNot)) and r == ("const", None) and left[0] == "field0" and \
                        self.fields.get(left[1], left) == left and self._never_none_field(left[1]):
                    parts.append(("const", isinstance(op, ast.IsNot)))      # class invariant: never None once constructed
                else:
                    parts.append(cmp_term(CMPOPS[type(op)], left, r))
                left = r
            return parts[0] if len(parts) == 1 else ("and", tuple(parts))
        if isinstance(e, ast.IfExp):
            c = self._expr(e.test, events)
            return gate(c, self._expr(e.body, events), self._expr(e.orelse, events))
        if isinstance(e, ast.Subscript):
            base, idx = self._expr(e.value, events), self._expr(e.slice, events)
            if base[0] == "tuple" and idx[0] == "const" and isinstance(idx[1], int) and 0 <= idx[1] < len(base[1]):
                return base[1][idx[1]]
            if isinstance(e.value, ast.Dict) and base[0] == "new" and base[2] == "dict" and base[3] and \
                    all(i[0] == "kv" and i[1][0] in ("const", "enum") for i in base[3]):
                # {K1: v1, K2: v2}[key]: a table written out where it is used -- the entry of the key
                def pick(k):
                    if k[0] == "gate":
                        a, b = pick(k[2]), pick(k[3])
                        return gate(k[1], a, b) if a is not None and b is not None else None
                    if k[0] in ("const", "enum"):
                        hits = [i[2] for i in base[3] if i[1] == k or (k[0] == "enum" and i[1][0] == "enum" and i[1][1:3] == k[1:3])]
                        return hits[-1] if hits else None
                    return None
                got = pick(idx)
                if got is not None:
                    return got
            if base[0] == "dictrec":
                if idx[0] == "const" and idx[1] in base[2]:
                    return self.field(f"{base[1]}.{idx[1]}")
                raise Unsupported(f"slot {ast.unparse(e.slice)[:40]} of self.{base[1]} is not one of its constant keys "
                                  f"at {self.module.path}:{e.lineno}")
            if base[0] == "constdict" and idx[0] == "gate":
                def pick_entry(k):
                    if k[0] == "gate":
                        a_, b_ = pick_entry(k[2]), pick_entry(k[3])
                        return gate(k[1], a_, b_) if a_ is not None and b_ is not None else None
                    if k[0] == "const":
                        hit = [v for kk, v in base[1] if kk == k]
                        return hit[0] if hit else None
                    return None
                got = pick_entry(idx)
                if got is not None:
                    return got
            if base[0] == "constdict":
                table = {k[1]: v for k, v in base[1]}
                if idx[0] == "const":
                    try:
                        if idx[1] in table:
                            return table[idx[1]]
                    except TypeError:
                        pass
                elif idx[0] in ("cmp", "not") and set(table) == {True, False} and len(base[1]) == 2 and \
                        all(type(k[1]) is bool for k, _ in base[1]):
                    return gate(idx, table[True], table[False])     # a two-way dispatch on a boolean
                elif idx[0] == "fn" and idx[1] == "bool" and len(idx[2]) == 1 and set(table) == {True, False} and \
                        len(base[1]) == 2 and all(type(k[1]) is bool for k, _ in base[1]):
                    return gate(idx[2][0], table[True], table[False])   # table[bool(x)] is `T if x else F`
            got = self._list_element(base, idx)
            if got is not None:
                return got
            return ("sub", base, idx)
        if isinstance(e, ast.Slice):
            return ("slice", self._expr(e.lower, events), self._expr(e.upper, events), self._expr(e.step, events))
        if isinstance(e, (ast.Tuple, ast.List, ast.Set)):
            kind = {ast.Tuple: "tuple", ast.List: "list", ast.Set: "set"}[type(e)]
            items = tuple(self._expr(x, events) for x in e.elts)
            if kind in ("list", "set") and len(items) == 1 and items[0][0] == "star" and items[0][1][0] == "comp" and \
                    items[0][1][1] in ("gen", "list"):
                return ("comp", kind) + items[0][1][2:]         # [*(f(x) for x in xs)] is the list comprehension
            if kind in ("list", "set") and len(items) == 1 and items[0][0] == "star":
                return ("new", self.site(e), kind, (items[0][1],))      # [*xs] is list(xs)
            if kind == "tuple":
                return ("tuple", items)
            if kind == "list":
                self.prog.list_literals.add(self.site(e))
            return ("new", self.site(e), kind, items)
        if isinstance(e, ast.Dict):
            entries = []
            for k, v in zip(e.keys, e.values):
                if k is None:
                    entries.append(("spread", self._expr(v, events)))
                else:
                    entries.append(("kv", self._expr(k, events), self._expr(v, events)))
            return ("new", self.site(e), "dict", tuple(entries))
        if isinstance(e, (ast.ListComp, ast.SetComp, ast.DictComp, ast.GeneratorExp)):
            return self.comp(e, events)
        if isinstance(e, ast.JoinedStr):
            parts = []
            for v in e.values:
                if isinstance(v, ast.Constant):
                    parts.append(("const", v.value))
                elif isinstance(v, ast.FormattedValue):
                    if v.format_spec is not None:
                        return ("str", ast.unparse(e))
                    inner = self._expr(v.value, events)
                    parts.append(("fn", {115: "str", 114: "repr", 97: "ascii"}.get(v.conversion, "str"), (inner,)))
            if parts and all(p_[0] == "const" or (p_[0] == "fn" and p_[1] == "str" and p_[2][0][0] == "const" and
                                                  isinstance(p_[2][0][1], (str, int))) for p_ in parts):
                return ("const", "".join(str(p_[1] if p_[0] == "const" else p_[2][0][1]) for p_ in parts))   # f"_{name}_x" with known parts
            if len(parts) > 6:
                return ("str", ast.unparse(e))      # long messages stay opaque
            out = None
            for p_ in parts:
                out = p_ if out is None else ("op", "+", out, p_)
            return out if out is not None else ("const", "")
        if isinstance(e, ast.Call):
            return self.call(e, events)
        if isinstance(e, ast.Starred):
            return ("star", self._expr(e.value, events))
        if isinstance(e, ast.NamedExpr) and isinstance(e.target, ast.Name):
            v = self._expr(e.value, events)
            self.env[e.target.id] = v
            return v
        if isinstance(e, ast.Lambda):
            fn = ast.FunctionDef(name="<lambda>", args=e.args, body=[ast.Return(value=e.body)], decorator_list=[],
                                 returns=None, type_comment=None, type_params=[])
            ast.copy_location(fn, e)
            ast.copy_location(fn.body[0], e)
            fn.end_lineno = getattr(e, "end_lineno", e.lineno)
            return self.closure(fn)
        raise Unsupported(f"expr {type(e).__name__} at {self.module.path}:{getattr(e, 'lineno', '?')}")

    def comp(self, e, events):
        saved = dict(self.env)
        old_loops = self.loops
        it0 = e.generators[0].iter
        held = isinstance(it0, ast.Name) and self.env.get(it0.id, ("?",))[0] == "genobj" and \
            self.env[it0.id][1] in self.prog.genobjs
        if len(e.generators) == 1 and (isinstance(it0, ast.Call) or held) and not e.generators[0].ifs \
                and not isinstance(e, ast.DictComp):
            done = self._comp_over_generator(e, events, self.prog.genobjs[self.env[it0.id][1]] if held else None)
            if done is not None:
                self.loops = old_loops
                self.env = saved
                return done
        result = self._comp_clause(e, 0, events)
        self.loops = old_loops
        self.env = saved
        return result

    def _comp_over_generator(self, e, events, genobj=None):
        """[f(v) for v in gen(...)]: f(v) is evaluated at each yield of the generator; the result is the
        comprehension over the generator's loop (one yield inside one loop) or the display of the values."""
        g = e.generators[0]
        got = []

        def consumer(val, gen, yst):
            self.bind_target(g.target, val)
            ev = []
            v = self._expr(e.elt, ev)
            got.append((v, tuple(gen.loops[len(self.loops_at_comp):]), gen))
            return ev
        self.loops_at_comp = self.loops
        if genobj is not None:
            res = self.run_generator(genobj[0], events, consumer, params=dict(genobj[1]))
        else:
            res = self.run_generator(g.iter, events, consumer)
        if res is None:
            return None
        sub, inl = res
        kind = {ast.ListComp: "list", ast.SetComp: "set", ast.GeneratorExp: "gen"}[type(e)]
        if all(not loops for _, loops, _ in got):
            if kind == "gen":
                kind = "list"
            return ("new", self.site(e), kind, tuple(v for v, _, _ in got))
        if len(got) == 1 and len(got[0][1]) == 1 and got[0][1][0] in got[0][2].loop_iters:
            v, (lid,), gen = got[0]
            return norm_comp(("comp", kind, lid, gen.loop_iters[lid], None, v, ()))
        raise Unsupported(f"comprehension over generator with several yields at {self.module.path}:{e.lineno}")

    def _dunder(self, t, name, events, node):
        """obj.__name__() for a collaborator object of a private class (field or local) that defines it, else None."""
        if t[0] == "field0" and self.cls is not None and not self._is_property(t[1]):
            K, fld = self._owned_class(t[1]), t[1]
        elif t[0] == "owned":
            K, fld = self._private_class(t[3]), t[1][:-1]
        elif t[0] == "new" and self.cls is not None and not self.field_prefix and self._private_class(t) is not None:
            fld = next((f for f, v in self.fields.items() if v == t and (self._root_key(), f) in self.prog.owned), None)
            if fld is None:
                return None
            K = self.prog.owned[(self._root_key(), fld)]
        else:
            return None
        if K is None:
            return None
        c, m = self.prog.find_method(K, name)
        if m is None:
            return None
        return self._inline_owned(K, fld, c, m, (), {}, events, node)

    def iterated(self, it, events, node):
        """What a `for` / comprehension walks when it is handed `it`: a collaborator object is asked for its
        __iter__; iter(x) walks x."""
        got = self._dunder(it, "__iter__", events, node)
        if got is not None and got != it:
            it = got
        while it[0] == "fn" and it[1] == "iter" and len(it[2]) == 1:
            it = it[2][0]
        return it

    def _comp_clause(self, e, gi, events):
        g = e.generators[gi]
        if g.is_async:
            raise Unsupported("async comprehension")
        it = self.iterated(self._expr(g.iter, events), events, g.iter)
        lid = self.ids.next()
        self.bind_target(g.target, ("elem", lid))
        self.loops = self.loops + (lid,)
        ev = []
        conds = tuple(self._expr(c, ev) for c in g.ifs)
        last = gi == len(e.generators) - 1
        kind = {ast.ListComp: "list", ast.SetComp: "set", ast.GeneratorExp: "gen", ast.DictComp: "dict"}[type(e)]
        if last:
            if isinstance(e, ast.DictComp):
                key, val = self._expr(e.key, ev), self._expr(e.value, ev)
            else:
                key, val = None, self._expr(e.elt, ev)
        else:
            inner = self._comp_clause(e, gi + 1, ev)
            key, val = None, ("flat", inner)
        if ev:
            events.append(Loop(lid, it, ast.unparse(g.target), ev, {}, e.lineno, True))
        if it[0] == "tuple" and len(it) == 2 and 1 <= len(it[1]) <= 4 and not conds and val[0] != "flat" and \
                kind in ("dict", "list", "set"):
            # a comprehension over a short tuple display is the display of its instances
            el = ("elem", lid)
            if kind == "dict":
                items = tuple(("kv", subst(key, {el: x}), subst(val, {el: x})) for x in it[1])
            else:
                items = tuple(subst(val, {el: x}) for x in it[1])
            return ("new", self.site(e), kind, items)
        return norm_comp(("comp", kind, lid, it, key, val, conds))

    # -- calls -----------------------------------------------------------------------------------
    def _entries_changed_in_place(self, call):
        """Is the dict built by this `dict.fromkeys(...)` call bound to a name whose entries are later changed in place
        (`d[k].append(v)`, `d[k] += [...]`, `d[k][i] = v`)?"""
        name = None
        for n in ast.walk(self.fn):
            if isinstance(n, (ast.Assign, ast.AnnAssign)) and n.value is call:
                t = n.targets[0] if isinstance(n, ast.Assign) else n.target
                if isinstance(t, ast.Name):
                    name = t.id
        if name is None:
            return True             # handed on directly: assume the worst
        for n in ast.walk(self.fn):
            entry = None
            if isinstance(n, ast.Call) and isinstance(n.func, ast.Attribute) and n.func.attr in MUTATORS:
                entry = n.func.value
            elif isinstance(n, ast.AugAssign):
                entry = n.target
            elif isinstance(n, ast.Subscript) and isinstance(n.ctx, (ast.Store, ast.Del)):
                entry = n.value
            if isinstance(entry, ast.Subscript) and isinstance(entry.value, ast.Name) and entry.value.id == name:
                return True
            if isinstance(n, ast.Call) and any(isinstance(a, ast.Name) and a.id == name for a in n.args):
                return True         # handed to other code
        return False

    def _reduce_as_loop(self, e, events):
        """functools.reduce(f, it, init) is `acc = init; for x in it: acc = f(acc, x)`."""
        if not (isinstance(e.func, (ast.Name, ast.Attribute)) and len(e.args) == 3 and not e.keywords and
                not any(isinstance(a, ast.Starred) for a in e.args)):
            return None
        if self.prog.dotted_of(self.module, e.func) != "functools.reduce" or \
                (isinstance(e.func, ast.Name) and e.func.id in self.env):
            return None
        acc, x = f"reduce@{e.lineno}:{e.col_offset}", f"item@{e.lineno}:{e.col_offset}"
        init = ast.Assign(targets=[ast.Name(id=acc, ctx=ast.Store())], value=e.args[2], type_comment=None)
        step = ast.Assign(targets=[ast.Name(id=acc, ctx=ast.Store())],
                          value=ast.Call(func=e.args[0], args=[ast.Name(id=acc, ctx=ast.Load()), ast.Name(id=x, ctx=ast.Load())],
                                         keywords=[]), type_comment=None)
        loop = ast.For(target=ast.Name(id=x, ctx=ast.Store()), iter=e.args[1], body=[step], orelse=[], type_comment=None)
        for s_ in (init, loop):
            ast.copy_location(s_, e)
            ast.fix_missing_locations(s_)
            for n in ast.walk(s_):
                if getattr(n, "end_lineno", None) is None:
                    n.end_lineno = getattr(e, "end_lineno", e.lineno)
            self.stmt(s_, events)
        self.env.pop(x, None)
        return self.env.pop(acc)

    def _accumulate_as_loop(self, e, events):
        """list(itertools.accumulate(it, f, initial=v)) is `acc = v; out = [v]; for x in it: acc = f(acc, x); out.append(acc)`."""
        if not (isinstance(e.func, ast.Name) and e.func.id == "list" and "list" not in self.env and len(e.args) == 1 and
                not e.keywords and isinstance(e.args[0], ast.Call) and isinstance(e.args[0].func, (ast.Name, ast.Attribute))):
            return None
        inner = e.args[0]
        if self.prog.dotted_of(self.module, inner.func) != "itertools.accumulate" or \
                (isinstance(inner.func, ast.Name) and inner.func.id in self.env):
            return None
        kw = {k.arg: k.value for k in inner.keywords}
        if None in kw or set(kw) - {"func", "initial"} or "initial" not in kw or any(isinstance(a, ast.Starred) for a in inner.args):
            return None
        fn = inner.args[1] if len(inner.args) == 2 else kw.get("func")
        if fn is None or len(inner.args) not in (1, 2) or (len(inner.args) == 2 and "func" in kw):
            return None
        tag = f"{e.lineno}:{e.col_offset}"
        acc, x, out = f"acc@{tag}", f"item@{tag}", f"running@{tag}"
        load = lambda n: ast.Name(id=n, ctx=ast.Load())
        stmts = [
            ast.Assign(targets=[ast.Name(id=acc, ctx=ast.Store())], value=kw["initial"], type_comment=None),
            ast.Assign(targets=[ast.Name(id=out, ctx=ast.Store())], value=ast.List(elts=[load(acc)], ctx=ast.Load()), type_comment=None),
            ast.For(target=ast.Name(id=x, ctx=ast.Store()), iter=inner.args[0], body=[
                ast.Assign(targets=[ast.Name(id=acc, ctx=ast.Store())],
                           value=ast.Call(func=fn, args=[load(acc), load(x)], keywords=[]), type_comment=None),
                ast.Expr(value=ast.Call(func=ast.Attribute(value=load(out), attr="append", ctx=ast.Load()), args=[load(acc)],
                                        keywords=[]))], orelse=[], type_comment=None)]
        for s_ in stmts:
            self.stmt(_located(s_, e), events)
        self.env.pop(x, None)
        self.env.pop(acc, None)
        return self.env.pop(out)

    def _getattr_choice_call(self, e, events):
        """getattr(obj, NAME)(args) where NAME is a selection between constant names: an `if` between the two calls."""
        g = e.func
        if not (isinstance(g, ast.Call) and isinstance(g.func, ast.Name) and g.func.id == "getattr" and "getattr" not in self.env and
                len(g.args) == 2 and not g.keywords):
            return None
        try:
            name = self._expr(g.args[1], [])
        except Unsupported:
            return None

        def consts(t):
            return t[0] == "const" and isinstance(t[1], str) and t[1].isidentifier() or (t[0] == "gate" and consts(t[2]) and consts(t[3]))
        if name[0] != "gate" or not consts(name):
            return None
        tmp = f"call@{e.lineno}:{e.col_offset}:{len(self.stack)}"

        def arm(t):
            if t[0] == "gate":
                return [_located(ast.If(test=_Term(t[1], e), body=arm(t[2]), orelse=arm(t[3])), e)]
            call_ = ast.Call(func=ast.Attribute(value=g.args[0], attr=t[1], ctx=ast.Load()), args=list(e.args), keywords=list(e.keywords))
            return [_located(ast.Assign(targets=[ast.Name(id=tmp, ctx=ast.Store())], value=call_, type_comment=None), e)]
        ev, _, _ = self.block(arm(name))
        events.extend(ev)
        return self.env.pop(tmp)

    def call(self, e, events):
        chosen = self._getattr_choice_call(e, events)
        if chosen is not None:
            return chosen
        folded = self._reduce_as_loop(e, events)
        if folded is not None:
            return folded
        folded = self._accumulate_as_loop(e, events)
        if folded is not None:
            return folded
        if isinstance(e.func, ast.Name) and e.func.id in ("getattr", "setattr") and e.func.id not in self.env and \
                self.prog.resolve_name(self.module, e.func.id) is None and not e.keywords and \
                len(e.args) == (2 if e.func.id == "getattr" else 3) and not any(isinstance(a, ast.Starred) for a in e.args):
            name = self._expr(e.args[1], [])
            if e.func.id == "getattr" and len(e.args) == 2 and name[0] == "gate":
                def by_name(t):
                    if t[0] == "gate":
                        a_, b_ = by_name(t[2]), by_name(t[3])
                        return gate(t[1], a_, b_) if a_ is not None and b_ is not None else None
                    if t[0] == "const" and isinstance(t[1], str) and t[1].isidentifier():
                        node = ast.copy_location(ast.Attribute(value=e.args[0], attr=t[1], ctx=ast.Load()), e)
                        node.end_lineno = getattr(e, "end_lineno", e.lineno)
                        return self._expr(node, events)
                    return None
                got = by_name(name)         # getattr(obj, 'a' if c else 'b') is obj.a if c else obj.b
                if got is not None:
                    return got
            if name[0] == "const" and isinstance(name[1], str) and name[1].isidentifier() and \
                    not (isinstance(e.args[0], ast.Name) and self.is_self(e.args[0]) and e.func.id == "getattr"):
                # getattr(obj, "name") / setattr(obj, "name", v) with a known name are obj.name / obj.name = v
                if e.func.id == "getattr":
                    node = ast.copy_location(ast.Attribute(value=e.args[0], attr=name[1], ctx=ast.Load()), e)
                    node.end_lineno = getattr(e, "end_lineno", e.lineno)
                    return self._expr(node, events)
                val = self._expr(e.args[2], events)
                node = ast.copy_location(ast.Attribute(value=e.args[0], attr=name[1], ctx=ast.Store()), e)
                node.end_lineno = getattr(e, "end_lineno", e.lineno)
                self.assign(node, val, events, e)
                return ("const", None)
        if isinstance(e.func, ast.Name) and e.func.id == "property" and "property" not in self.env and \
                self.prog.resolve_name(self.module, "property") is None and 1 <= len(e.args) <= 2 and not e.keywords:
            parts = tuple(self._expr(a, events) for a in e.args)
            if all(p[0] in ("closure", "const") for p in parts):
                return ("property",) + parts + (("const", None),) * (2 - len(parts))
        # a call of a package generator function used as a value
        target = self._callee_def(e) if isinstance(e.func, (ast.Attribute, ast.Name)) else None
        if target is not None and self._yields(target[2]) and \
                not any(ast.unparse(d) in ("contextmanager", "contextlib.contextmanager") for d in target[2].decorator_list):
            disp = self.generator_display(e, events)
            if disp is not None:
                return disp
        if isinstance(e.func, ast.Attribute) and e.func.attr == "format" and isinstance(e.func.value, ast.Constant) and \
                isinstance(e.func.value.value, str) and not any(isinstance(a, ast.Starred) for a in e.args) and \
                all(k.arg is not None for k in e.keywords):
            built = _format_braces(e.func.value.value, [self._expr(a, events) for a in e.args],
                                   {k.arg: self._expr(k.value, events) for k in e.keywords})
            if built is not None:
                return built
        args = tuple(self._expr(a, events) for a in e.args)
        if any(a[0] == "star" and a[1][0] == "tuple" and len(a[1]) == 2 for a in args):
            flat = []
            for a in args:          # f(*(x, y)) is f(x, y)
                flat.extend(a[1][1] if (a[0] == "star" and a[1][0] == "tuple" and len(a[1]) == 2) else (a,))
            args = tuple(flat)
        kwargs = []
        for k in e.keywords:
            v = self._expr(k.value, events)
            if k.arg is None and v[0] == "new" and v[2] == "dict" and v[3] and \
                    all(i[0] == "kv" and i[1][0] == "const" and isinstance(i[1][1], str) for i in v[3]):
                kwargs.extend((i[1][1], i[2]) for i in v[3])         # f(**{"a": x, "b": y}) is f(a=x, b=y)
            elif k.arg is None and v[0] == "new" and v[2] == "dict" and not v[3]:
                pass                                                 # f(**{}) passes nothing
            elif k.arg is None and v[0] == "constdict" and all(isinstance(kk[1], str) for kk, _ in v[1]):
                kwargs.extend((kk[1], vv) for kk, vv in v[1])        # f(**OPTIONS) with a module-level table of options
            elif k.arg is None and v[0] == "new" and v[2] == "dict" and v[3] and \
                    all(isinstance(i, tuple) and len(i) == 3 and i[0] == "kw" and i[1] != "**" for i in v[3]):
                kwargs.extend((i[1], i[2]) for i in v[3])            # f(**dict(a=x, b=y)) likewise
            else:
                kwargs.append((k.arg if k.arg is not None else "**", v))
        kwargs = tuple(kwargs)
        f = e.func
        line = e.lineno
        # super().m(...) / super(C, self).m(...)
        if isinstance(f, ast.Attribute) and isinstance(f.value, ast.Call) and \
                isinstance(f.value.func, ast.Name) and f.value.func.id == "super" and self.cls is not None:
            owner = self.owner or self._defining_class()
            if f.value.args:
                c0 = self.prog.resolve_class(self.module, f.value.args[0])
                if c0 is not None:
                    owner = c0
            c, m = self.prog.find_method(self.cls, f.attr, after=owner)
            if m is not None:
                return self.inline(c, m, args, dict(kwargs), events, e)
            res = ("res", self.site(e), f"super.{f.attr}", args, kwargs)
            events.append(Call(f"super.{f.attr}", None, ("self",), args, kwargs, res, line))
            return res
        # cls(...) inside a classmethod: an instance of the class
        if isinstance(f, ast.Name) and self.is_classmethod and f.id == self.self_name and f.id not in self.env \
                and (self.cm_cls or self.cls) is not None:
            return self._construct(self.cm_cls or self.cls, args, kwargs, events, e)
        # cls.m(...) inside a classmethod
        if isinstance(f, ast.Attribute) and isinstance(f.value, ast.Name) and self.is_classmethod and \
                f.value.id == self.self_name and f.value.id not in self.env and (self.cm_cls or self.cls) is not None:
            c, m = self.prog.find_method(self.cm_cls or self.cls, f.attr)
            if m is not None and any(ast.unparse(d) in ("staticmethod", "classmethod") for d in m.decorator_list):
                return self.inline(c, m, args, dict(kwargs), events, e, cm_cls=self.cm_cls)
        # self(...)
        if self.is_self(f) and self.cls is not None:
            c, m = self.prog.find_method(self.cls, "__call__")
            if m is not None:
                return self.inline(c, m, args, dict(kwargs), events, e)
        # self.m(...)
        if isinstance(f, ast.Attribute) and self.is_self(f.value) and self.cls is not None:
            c, m = self.prog.find_method(self.cls, f.attr)
            if m is not None and not any(ast.unparse(d) == "property" for d in m.decorator_list):
                return self.inline(c, m, args, dict(kwargs), events, e)
            if m is not None:
                # a property that hands out a callable: read it, then call what it returned
                held = self.inline(c, m, (), {}, events, f)
                val = self._call_any(held, args, kwargs, events, e)
                if val is not None:
                    return val
                res = ("res", self.site(e), "expr-call", (held,) + args, kwargs)
                events.append(Call("expr", None, held, args, kwargs, res, line))
                return res
            fn_ = self.fname(f.attr)
            if fn_ not in self.fields and f.attr not in self.prog.instance_attrs(self.cls) and not self.field_prefix and \
                    any(f.attr in k.class_attrs for k in self.prog.mro(self.cls)):
                # a class-level attribute naming a type (`_container_type = list`): types are not bound to the instance
                held = self._expr(f, events)
                if held[0] == "global" and (held[1] in ("builtins.list", "builtins.dict", "builtins.set") or
                                            held[1] in ("collections.deque", "collections.OrderedDict", "collections.defaultdict")):
                    val = self._call_value(held, args, kwargs, events, e)
                    if val is not None:
                        return val
            recv = self.field(fn_)
            if recv[0] in ("partial", "getter", "methodcaller", "closure") or (recv[0] == "global" and fn_.startswith("%")):
                val = self._call_value(recv, args, kwargs, events, e)       # the callable the constructor left there
                if val is not None:
                    return val
            res = ("res", self.site(e), f"self.{fn_}", args, kwargs)
            events.append(Call(f"self.{fn_}", None, recv, args, kwargs, res, line))
            return res
        # self.NAME.function(...) with NAME a class-level alias of a module (`_rng = random`)
        if isinstance(f, ast.Attribute) and isinstance(f.value, ast.Attribute) and self.is_self(f.value.value) \
                and self.cls is not None and self.fname(f.value.attr) not in self.fields and \
                f.value.attr not in self.prog.instance_attrs(self.cls) and \
                any(f.value.attr in k.class_attrs for k in self.prog.mro(self.cls)):
            held = self._expr(f.value, events)
            if held[0] == "global" and not held[1].startswith(("?", "builtins.")):
                return self._dotted_call(held[1] + "." + f.attr, args, kwargs, events, e)
            if held[0] == "constdict" and f.attr in ("items", "keys", "values", "get"):
                node = ast.Call(func=ast.Attribute(value=_Term(held, f.value), attr=f.attr, ctx=ast.Load()),
                                args=[_Term(a, e) for a in args], keywords=[])
                ast.copy_location(node, e)
                ast.copy_location(node.func, e)
                node.end_lineno = node.func.end_lineno = getattr(e, "end_lineno", e.lineno)
                if not kwargs:
                    return self.call(node, events)
        # self.field.method(...)
        if isinstance(f, ast.Attribute) and isinstance(f.value, ast.Attribute) and self.is_self(f.value.value) \
                and not self._is_property(f.value.attr):
            K = self._owned_class(self.fname(f.value.attr))
            if K is not None:
                c, m = self.prog.find_method(K, f.attr)
                if m is not None:
                    return self._inline_owned(K, self.fname(f.value.attr), c, m, args, dict(kwargs), events, e)
            return self._field_method_call(self.fname(f.value.attr), f.attr, args, kwargs, events, e)
        # self.field.sub.method(...) on a container held by an owned collaborator
        if isinstance(f, ast.Attribute) and isinstance(f.value, ast.Attribute) and isinstance(f.value.value, ast.Attribute) \
                and self.is_self(f.value.value.value) and self._owned_class(self.fname(f.value.value.attr)) is not None \
                and self.prog.find_method(self._owned_class(self.fname(f.value.value.attr)), f.value.attr)[1] is None:
            return self._field_method_call(self.fname(f.value.value.attr) + "." + f.value.attr, f.attr, args, kwargs,
                                           events, e)
        d = self.prog.dotted_of(self.module, f) if isinstance(f, (ast.Attribute, ast.Name)) else None
        if isinstance(f, ast.Name):
            if f.id in self.env:
                recv = assume(self.env[f.id], self.facts) if self.facts else self.env[f.id]
                if recv[0] == "owned":
                    # a local collaborator object that is called: its __call__
                    K = self._private_class(recv[3])
                    c, m = self.prog.find_method(K, "__call__") if K is not None else (None, None)
                    if m is not None:
                        return self._inline_owned(K, recv[1][:-1], c, m, args, dict(kwargs), events, e)
                bound = self._bound_method_call(recv, args, dict(kwargs), events, e)
                if bound is not None:
                    return bound
                val = self._call_value(recv, args, kwargs, events, e)
                if val is not None:
                    return val
                res = ("res", self.site(e), "local:" + f.id, args, kwargs)
                events.append(Call("local:" + f.id, None, recv, args, kwargs, res, line))
                return res
            r = self.prog.resolve_name(self.module, f.id)
            if r and r[0] == "func":
                m, node = r[1]
                q = f"{m.name}.{node.name}"
                if self._can_inline_function(m, node):
                    return self.inline_function(m, node, q, args, dict(kwargs), events, e)
                res = ("res", self.site(e), q, args, kwargs)
                events.append(Call(q, None, None, args, kwargs, res, line))
                return res
            if r and r[0] == "class":
                return self._construct(r[1], args, kwargs, events, e)
            if r and r[0] == "ext":
                d = r[1]
            elif r is None and f.id in ("list", "set", "dict", "tuple", "sorted", "sum", "max", "min", "any", "all") and \
                    len(args) >= 1 and args[0][0] == "genobj" and args[0][1] in self.prog.genobjs:
                return self.consume_genobj(args[0], f.id, events, e)
            elif r is None and f.id in FRESH_BUILTINS:
                if f.id in ("list", "set") and len(args) == 1 and not kwargs and args[0][0] == "comp" and args[0][1] == "gen":
                    return ("comp", f.id) + args[0][2:]        # list(<genexp>) is the list comprehension
                return ("new", self.site(e), f.id, args + tuple(("kw",) + kv for kv in kwargs))
            elif r is None and f.id in PURE_BUILTINS:
                if f.id == "bool" and len(args) == 1 and not kwargs and _is_bool(args[0]):
                    return args[0]
                if f.id == "isinstance" and len(args) == 2 and not kwargs:
                    known = self._isinstance_of_record(args[0], args[1])
                    if known is not None:
                        return known
                if f.id in ("int", "float", "str", "bool") and not args and not kwargs:
                    return ("const", {"int": 0, "float": 0.0, "str": "", "bool": False}[f.id])
                if f.id == "getattr" and len(args) in (2, 3) and not kwargs and args[0] == ("self",) and \
                        args[1][0] == "const" and isinstance(args[1][1], str) and self.cls is not None and \
                        self.prog.find_method(self.cls, args[1][1])[1] is None:
                    return self.field(self.fname(args[1][1]))       # getattr(self, "name"[, default]) reads the field
                if f.id == "zip" and not kwargs and len(args) >= 2:
                    z = _zip_displays(args)
                    if z is not None:
                        return z
                if f.id == "len" and args == (("self",),) and self.cls is not None:
                    c, m = self.prog.find_method(self.cls, "__len__")
                    if m is not None:
                        return self.inline(c, m, (), {}, events, e)
                if f.id in ("len", "iter", "bool", "next") and len(args) == 1 and not kwargs:
                    got = self._dunder(args[0], {"len": "__len__", "iter": "__iter__", "bool": "__bool__",
                                                 "next": "__next__"}[f.id], events, e)
                    if got is not None:
                        return got
                if f.id == "next" and len(args) == 2 and not kwargs and args[0][0] == "comp" and args[0][1] == "gen" and \
                        args[0][4] is None and args[0][5][0] != "flat" and args[0][3][0] == "tuple" and len(args[0][3]) == 2 and \
                        1 <= len(args[0][3][1]) <= 4:
                    # next((v for x in (a, b) if test(x)), default): the value for the first item that passes, else the default
                    c_ = args[0]
                    out = args[1]
                    for item in reversed(c_[3][1]):
                        m_ = {("elem", c_[2]): item}
                        conds = [subst(x, m_) for x in c_[6]]
                        # components of the item display
                        val = subst(c_[5], m_)
                        conds = [_resolve_tgets(x) for x in conds]
                        val = _resolve_tgets(val)
                        cond = conds[0] if len(conds) == 1 else (("and", tuple(conds)) if conds else ("const", True))
                        out = val if cond == ("const", True) else gate(cond, val, out)
                    return out
                if f.id == "next" and len(args) == 1 and not kwargs and args[0][0] == "genobj":
                    got = self._stream_next(args[0], events, e)
                    if got is not None:
                        return got
                if f.id == "next" and len(args) == 1 and not kwargs and args[0] in self.prog.next_of:
                    return self.prog.next_of[args[0]]      # the element the enclosing walk is at
                return ("fn", f.id, args + tuple(("kw",) + kv for kv in kwargs))
            elif r is None and f.id in EXC_NAMES:
                return ("new", self.site(e), "exc:" + f.id, args)
            elif r is None:
                res = ("res", self.site(e), "?" + f.id, args, kwargs)
                events.append(Call("?" + f.id, None, None, args, kwargs, res, line))
                return res
        if d is not None:
            return self._dotted_call(d, args, kwargs, events, e)
        # ClassName.method(...) on a package class: static / class-level helper
        if isinstance(f, ast.Attribute) and isinstance(f.value, ast.Name) and f.value.id not in self.env:
            rc = self.prog.resolve_name(self.module, f.value.id)
            if rc and rc[0] == "class":
                c, m = self.prog.find_method(rc[1], f.attr)
                if m is not None and not any(ast.unparse(d) in ("staticmethod", "classmethod", "property")
                                             for d in m.decorator_list) and args and args[0] == ("self",) and \
                        self.cls is not None and rc[1] in self.prog.mro(self.cls) and not self.field_prefix:
                    # Base.method(self, ...): the definition the base class sees, run on this very object
                    return self.inline(c, m, args[1:], dict(kwargs), events, e)
                if m is not None and any(ast.unparse(d) in ("staticmethod", "classmethod") for d in m.decorator_list):
                    if self.cls is not None and rc[1] not in self.prog.mro(self.cls):
                        return self.inline(c, m, args, dict(kwargs), events, e, cm_cls=rc[1])
                    saved = self.cls
                    try:
                        if self.cls is None:
                            self.cls = rc[1]
                        return self.inline(c, m, args, dict(kwargs), events, e)
                    finally:
                        self.cls = saved
        # dict.fromkeys(keys, value): a dict comprehension with a constant value
        if isinstance(f, ast.Attribute) and f.attr == "fromkeys" and isinstance(f.value, ast.Name) and \
                f.value.id == "dict" and "dict" not in self.env and 1 <= len(args) <= 2 and not kwargs:
            lid = self.ids.next()
            if len(args) == 2 and args[1][0] == "new" and args[1][2] in ("list", "dict", "set") and self._entries_changed_in_place(e):
                self.prog.hazard(("fromkeys", f"{self.module.path}:{e.lineno}"), (
                    "shared-value", f"{self.module.path}:{e.lineno}", self.fn.name, ast.unparse(e)[:80],
                    f"dict.fromkeys(keys, {ast.unparse(e.args[1])}) stores the one {args[1][2]} built for the call under every "
                    f"key: what is added for one key shows up under all keys"))
            return ("comp", "dict", lid, args[0], ("elem", lid), args[1] if len(args) == 2 else ("const", None), ())
        # method of a local collaborator object of a private class
        if isinstance(f, ast.Attribute) and isinstance(f.value, ast.Name) and \
                self.env.get(f.value.id, ("?",))[0] == "owned":
            o = self.env[f.value.id]
            K = self._private_class(o[3])
            c, m = self.prog.find_method(K, f.attr)
            if m is not None:
                return self._inline_owned(K, o[1][:-1], c, m, args, dict(kwargs), events, e)
            if self.prog.find_method(K, f.attr)[1] is None:
                return self._field_method_call(o[1] + f.attr, "__call__", args, kwargs, events, e)
        # obj.part.method(...) on a container held by a local collaborator
        if isinstance(f, ast.Attribute) and isinstance(f.value, ast.Attribute) and isinstance(f.value.value, ast.Name) and \
                self.env.get(f.value.value.id, ("?",))[0] == "owned" and \
                self.prog.find_method(self._private_class(self.env[f.value.value.id][3]), f.value.attr)[1] is None:
            return self._field_method_call(self.env[f.value.value.id][1] + f.value.attr, f.attr, args, kwargs, events, e)
        # method on a local object / arbitrary expression
        if isinstance(f, ast.Attribute):
            recv = self._expr(f.value, events)
            if recv[0] == "global" and recv[1] in ("random", "numpy.random", "numpy", "math", "copy", "operator", "itertools",
                                                   "functools", "collections"):
                return self._dotted_call(f"{recv[1]}.{f.attr}", args, kwargs, events, e)     # a local name for a module
            got = self._record_method(recv, f.attr, args, kwargs, events, e)
            if got is not None:
                return got
            got = self._object_method(recv, f.attr, args, kwargs, events, e)
            if got is not None:
                return got
            got = self.enum_method(recv, f.attr, args, kwargs, events, e)
            if got is not None:
                return got
            helper = self._copy_helper(recv, f.attr) if not f.attr.startswith("__") else None
            if helper is not None:
                return self.inline_function(helper[0].module, helper[1], f"{helper[0].qual}.{f.attr}", (recv,) + tuple(args),
                                            dict(kwargs), events, e, level=0)
            if self._object_choice(recv) and not isinstance(f.value, _Term):
                # (A if c else B).method(...): the call goes to whichever object the condition picks
                tmp = f"call@{e.lineno}:{e.col_offset}:{len(self.stack)}"
                arms = []
                for alt in (recv[2], recv[3]):
                    call_ = ast.Call(func=ast.Attribute(value=_Term(alt, f.value), attr=f.attr, ctx=ast.Load()),
                                     args=[_Term(a, e) for a in args],
                                     keywords=[ast.keyword(arg=(None if k == "**" else k), value=_Term(v, e)) for k, v in kwargs])
                    arms.append(_located(ast.Assign(targets=[ast.Name(id=tmp, ctx=ast.Store())], value=call_, type_comment=None), e))
                ev, _, _ = self.block([_located(ast.If(test=_Term(recv[1], f.value), body=[arms[0]], orelse=[arms[1]]), e)])
                events.extend(ev)
                return self.env.pop(tmp)
            inst = self._stateless_instance(recv)
            if inst is not None:
                c, m = self.prog.find_method(inst, f.attr)
                if m is not None and not any(ast.unparse(d) in ("staticmethod", "classmethod", "property") for d in m.decorator_list) \
                        and self._can_inline_function(c.module, m):
                    return self.inline_function(c.module, m, f"{c.qual}.{f.attr}", (recv,) + tuple(args), dict(kwargs),
                                                events, e, level=0)
            if recv[0] == "constdict" and not kwargs:
                if f.attr == "items" and not args:
                    return ("tuple", tuple(("tuple", (k, v)) for k, v in recv[1]))
                if f.attr == "keys" and not args:
                    return ("tuple", tuple(k for k, _ in recv[1]))
                if f.attr == "values" and not args:
                    return ("tuple", tuple(v for _, v in recv[1]))
                if f.attr == "get" and len(args) in (1, 2) and args[0][0] == "const":
                    hit = [v for k, v in recv[1] if k == args[0]]
                    return hit[0] if hit else (args[1] if len(args) == 2 else ("const", None))
                if f.attr == "get" and len(args) in (1, 2) and len(recv[1]) <= 4 and \
                        all(isinstance(k[1], (str, int)) and not isinstance(k[1], bool) for k, _ in recv[1]):
                    # TABLE.get(key, default) with a key that is not known: the entry whose key it equals, else the default
                    out = args[1] if len(args) == 2 else ("const", None)
                    for k, v in reversed(recv[1]):
                        out = gate(cmp_term("==", args[0], k), v, out)
                    return out
            if f.attr in SET_ALGEBRA and len(args) == 1 and not kwargs:
                return ("op", SET_ALGEBRA[f.attr], recv, args[0])
            if f.attr == "__getitem__" and len(args) == 1 and not kwargs:
                return ("sub", recv, args[0])
            if f.attr == "_replace" and not args and record_names(recv) and recv[0] == "tuple" and \
                    all(k in recv[2][1:] for k, _ in kwargs):
                new = dict(kwargs)
                return ("tuple", tuple(new.get(n, v) for n, v in zip(recv[2][1:], recv[1])), recv[2])
            if recv[0] == "field0" and self.cls is not None and "." not in recv[1] and not self.field_prefix and \
                    self.fields.get(recv[1], recv) == recv and self._owned_class(recv[1]) is not None:
                # a local name for the collaborator object held in a field
                K = self._owned_class(recv[1])
                c, m = self.prog.find_method(K, f.attr)
                if m is not None:
                    return self._inline_owned(K, recv[1], c, m, args, dict(kwargs), events, e)
            if recv[0] == "field0" and self.cls is not None and "." in recv[1] and not self.field_prefix and \
                    self.fields.get(recv[1], recv) == recv and \
                    (self._root_key(), recv[1].split(".")[0]) in self.prog.dict_records:
                return self._field_method_call(recv[1], f.attr, args, kwargs, events, e)    # a named slot of a dict of slots
            if recv[0] == "field0" and self.cls is not None and recv[1].count(".") == 1 and not self.field_prefix and \
                    self.fields.get(recv[1], recv) == recv and \
                    recv[1].split(".")[1] in (self._record_names(recv[1].split(".")[0]) or ()):
                return self._field_method_call(recv[1], f.attr, args, kwargs, events, e)    # a component of a record field
            if recv[0] == "field0" and self.cls is not None and "." not in recv[1] and not self.field_prefix and \
                    self.fields.get(recv[1], recv) == recv and self._owned_class(recv[1]) is None and \
                    not self._is_property(recv[1]):
                # a method of the object held in a field, reached through an expression that evaluates to it
                return self._field_method_call(recv[1], f.attr, args, kwargs, events, e)
            if f.attr == "append" and len(args) == 1 and not kwargs and isinstance(f.value, ast.Name) and \
                    recv[0] == "new" and recv[2] == "list" and recv[1] in self.prog.list_literals and not self.loops and \
                    self.env.get(f.value.id) == recv and args[0][0] in ("partial", "closure") and \
                    not any(isinstance(x, tuple) and x and x[0] == "star" for x in recv[3]) and \
                    self._queue_of_calls(f.value.id):
                # a local list of pending calls (`todo.append(partial(...))` ... `for call in todo: call()`): the list
                # is the display of what has been appended so far
                self.env[f.value.id] = ("new", recv[1], "list", recv[3] + (args[0],))
                self.prog.queue_lists.add(recv[1])
                return ("const", None)
            if recv[0] == "field0" and self.field_prefix and "." not in recv[1] and not recv[1].startswith("%") and \
                    self.fields.get(recv[1], recv) == recv and isinstance(self._root_key(), str) and \
                    not self._root_key().startswith("<"):
                # inside a collaborator (a descriptor asked for `getattr(instance, name).get()`): a method of an object
                # the owner holds -- judged in the owner's context
                try:
                    root = self.prog.cls(self._root_key())
                except Unsupported:
                    root = None
                if root is not None:
                    saved = (self.cls, self.field_prefix, getattr(self, "_owner_key", None))
                    self.cls, self.field_prefix = root, ""
                    try:
                        if self._owned_class(recv[1]) is None and not self._is_property(recv[1]):
                            return self._field_method_call(recv[1], f.attr, args, kwargs, events, e)
                    finally:
                        self.cls, self.field_prefix, self._owner_key = saved
            res = ("res", self.site(e), "." + f.attr, (recv,) + args, kwargs)
            if f.attr in MUTATORS:
                events.append(Mut(recv, f.attr, args, kwargs, res, line))
                self._note_list_mutation(recv, f.attr, args)
            else:
                events.append(Call("method", f.attr, recv, args, kwargs, res, line))
            if f.attr == "copy" and not args:
                return ("new", self.site(e), "copy", (recv,))
            if self.fluent(recv, f.attr):
                return recv
            return res
        # call of a call result, subscript, lambda ...
        recv = self._expr(f, events)
        val = self._call_any(recv, args, kwargs, events, e)
        if val is not None:
            return val
        res = ("res", self.site(e), "expr-call", (recv,) + args, kwargs)
        events.append(Call("expr", None, recv, args, kwargs, res, line))
        return res

    def _isinstance_of_record(self, x, k):
        """isinstance(x, K) for x a record display (or None, or a selection between such) and K an immutable record class
        of the package: decided by the component names when these identify the class; None if not decided."""
        if not (k[0] == "global" and "." in k[1]):
            return None
        mod, name = k[1].rsplit(".", 1)
        K = self.prog.modules[mod].classes.get(name) if mod in self.prog.modules else None
        if K is None or K.record_fields is None:
            return None
        want = tuple(n for n, _ in K.record_fields)

        def decide(t):
            if t[0] == "gate":
                a, b = decide(t[2]), decide(t[3])
                return gate(t[1], a, b) if a is not None and b is not None else None
            if t == ("const", None) or t == RAISES:
                return ("const", False)
            if t[0] == "tuple" and len(t) == 3 and t[2][:1] == ("names",):
                have = t[2][1:]
                owners = self.prog.record_classes.get(tuple(have), set())
                if have != want:
                    return ("const", False) if len(owners) >= 1 and K.qual not in owners else None
                return ("const", True) if owners == {K.qual} else None
            return None
        return decide(x)

    def _construct(self, cls, args, kwargs, events, e):
        """Instantiation of a package class; an immutable record class is a tuple display with named fields."""
        if cls.enum_members is not None and len(args) == 1 and not kwargs:
            return self.enum_lookup(cls, args[0], events, e)
        if cls.record_fields is not None and not any(isinstance(a, tuple) and a and a[0] == "star" for a in args) \
                and not any(k is None for k, _ in kwargs):
            names = [n for n, _ in cls.record_fields]
            kw = dict(kwargs)
            if len(args) <= len(names) and set(kw) <= set(names[len(args):]):
                items = list(args)
                ok = True
                for n, default in cls.record_fields[len(args):]:
                    if n in kw:
                        items.append(kw[n])
                    elif isinstance(default, ast.Constant):
                        items.append(("const", default.value))
                    else:
                        ok = False
                        break
                if ok:
                    self.prog.record_classes.setdefault(tuple(names), set()).add(cls.qual)
                    return ("tuple", tuple(items), ("names",) + tuple(names))
        res = ("new", self.site(e), cls.qual, args + tuple(("kw",) + kv for kv in kwargs))
        events.append(Construct(cls.qual, args, kwargs, res, e.lineno))
        return res

    def _callee_def(self, call):
        """(class-or-None, module, FunctionDef, is_method) of a call to a package function / self method."""
        f = call.func
        if isinstance(f, ast.Attribute) and self.is_self(f.value) and self.cls is not None:
            c, m = self.prog.find_method(self.cls, f.attr)
            if m is not None:
                return c, c.module, m, True
        if isinstance(f, ast.Name) and f.id not in self.env:
            r = self.prog.resolve_name(self.module, f.id)
            if r and r[0] == "func":
                return None, r[1][0], r[1][1], False
        if isinstance(f, ast.Attribute):
            d = self.prog.dotted_of(self.module, f)
            if d:
                r = self.prog.resolve_dotted(d)
                if r[0] == "func":
                    return None, r[1][0], r[1][1], False
        return None

    @staticmethod
    def _yields(fn):
        """Yield statements of the function itself (not of nested definitions)."""
        out, todo = [], list(fn.body)
        while todo:
            n = todo.pop()
            if isinstance(n, (ast.FunctionDef, ast.AsyncFunctionDef, ast.Lambda, ast.ClassDef)):
                continue
            if isinstance(n, (ast.Yield, ast.YieldFrom)):
                out.append(n)
            todo.extend(ast.iter_child_nodes(n))
        return out

    def _bind_args(self, fn, args, kwargs, is_method, call_node):
        a = fn.args
        _defaults_of = fn
        names = [x.arg for x in a.posonlyargs + a.args]
        decos = [ast.unparse(d) for d in fn.decorator_list]
        if is_method and "staticmethod" not in decos:
            names = names[1:]
        params = {}
        pos = self._expand_star(args, len(names))
        for n, v in zip(names, pos):
            params[n] = v
        if len(pos) > len(names) and a.vararg:
            params["*"] = ("tuple", tuple(pos[len(names):]))
        kwnames = set(names) | {x.arg for x in a.kwonlyargs}
        extra = []
        for n, v in dict(kwargs).items():
            if n in kwnames:
                params[n] = v
            else:
                extra.append((n, v))
        if extra and a.kwarg:
            params["**"] = ("new", self.site(call_node), "dict", tuple(("kv", ("const", n), v) for n, v in extra))
        for n, dflt in zip(names[len(names) - len(a.defaults):], a.defaults):
            if n not in params:
                params[n] = self._expr_const(dflt, _defaults_of)
        for kw, dflt in zip(a.kwonlyargs, a.kw_defaults):
            if kw.arg not in params and dflt is not None:
                params[kw.arg] = self._expr_const(dflt, _defaults_of)
        return params

    def run_generator(self, call, events, consumer, split_at=None, stop=None, params=None, carried=(), cfields=()):
        """Run the body of the generator function called by `call`; at every `yield`, `consumer(value)`
        (which returns the consumer's events) runs in this summariser, inside the generator's loops and
        branch facts.  Returns (sub summariser, Inlined event) or None if `call` is not such a call."""
        target = self._callee_def(call)
        if target is None:
            return None
        c, module, fn, is_method = target
        ys = self._yields(fn)
        if not ys or any(isinstance(y, ast.YieldFrom) for y in ys) or fn in self.fnstack or self.depth >= self.MAX_DEPTH:
            return None
        parents = {}
        for n in ast.walk(fn):
            for ch in ast.iter_child_nodes(n):
                parents[ch] = n
        for y in ys:
            if not isinstance(parents.get(y), ast.Expr):
                return None                                  # `x = yield ...`: values are sent in
            p = parents.get(y)
            while p is not None and p is not fn:
                if isinstance(p, (ast.Try, ast.While, ast.With)):
                    return None
                p = parents.get(p)
        if params is None:
            args = tuple(self._expr(a, events) for a in call.args)
            kwargs = tuple((k.arg if k.arg is not None else "**", self._expr(k.value, events)) for k in call.keywords)
            params = self._bind_args(fn, args, kwargs, is_method, call)
        sub = Summariser(self.prog, module, self.cls if is_method else None, fn, params=params, fields=self.fields,
                         depth=self.depth + 1, ids=self.ids,
                         stack=self.stack + (f"{call.lineno}:{call.col_offset}",), loops=self.loops,
                         owner=c, fnstack=self.fnstack)
        if not is_method and any(v == ("self",) for v in params.values()):
            sub.cls = self.cls
        sub.facts = list(self.facts)
        sub.base_facts = len(sub.facts)

        def on_yield(gen, val, gen_events, st):
            saved = (self.loops, self.facts, self.loop_marks)
            self.loops, self.facts, self.loop_marks = gen.loops, list(gen.facts), []
            self.fields = gen.fields
            for n in carried:
                self.env[n] = gen.env["^" + n]
            try:
                gen_events.extend(consumer(val, gen, st))
            finally:
                gen.fields = self.fields
                for n in carried:
                    gen.env["^" + n] = self.env[n]
                self.loops, self.facts, self.loop_marks = saved
        sub.on_yield = on_yield
        if carried or cfields:
            sub.consumer_state = (set(carried), set(cfields))
            for n in carried:
                sub.env["^" + n] = self.env[n]
        if split_at is not None:
            # a context manager: the statements after its single top-level yield run only if the block ended normally
            i = fn.body.index(split_at(fn))
            ev, term, ret = sub.block(fn.body[:i + 1])
            if not term and not stop():
                ev2, term, ret = sub.block(fn.body[i + 1:])
                ev = ev + ev2
        else:
            ev, term, ret = sub.block(fn.body)
        self.fields = sub.exit_fields(term)
        for n in carried:
            self.env[n] = sub.env["^" + n]
        inl = Inlined(f"{c.name}.{fn.name}" if c is not None else f"{module.name}.{fn.name}", ev, call.lineno, c, fn,
                      dict(params), ("const", None))
        events.append(inl)
        return sub, inl

    def _stream_step(self, g):
        """For a generator object of an endless stream (`def gen(...): while True: ...; yield E`): the function that
        computes one element (the loop body with `return E` for the yield), its module / class and the bound
        arguments; None for any other generator."""
        if not (isinstance(g, tuple) and g and g[0] == "genobj" and g[1] in self.prog.genobjs):
            return None
        call, params = self.prog.genobjs[g[1]]
        target = self._callee_def(call)
        if target is None:
            return None
        c, module, fn, is_method = target
        cache = self.prog.stream_steps
        if id(fn) not in cache:
            cache[id(fn)] = None
            body = [x for x in fn.body if not (isinstance(x, ast.Expr) and isinstance(x.value, ast.Constant))]
            if len(body) == 1 and isinstance(body[0], ast.While) and isinstance(body[0].test, ast.Constant) and \
                    body[0].test.value is True and not body[0].orelse and body[0].body:
                inner = body[0].body
                last = inner[-1]
                jumps = [n for x in inner for n in ast.walk(x)
                         if isinstance(n, (ast.Yield, ast.YieldFrom, ast.Break, ast.Continue, ast.Return))]
                if isinstance(last, ast.Expr) and isinstance(last.value, ast.Yield) and jumps == [last.value]:
                    ret = ast.copy_location(ast.Return(value=last.value.value), last)
                    step = ast.FunctionDef(name=fn.name + "__step", args=fn.args, body=list(inner[:-1]) + [ret],
                                           decorator_list=[], returns=None, type_comment=None)
                    ast.copy_location(step, fn)
                    step.end_lineno = getattr(fn, "end_lineno", fn.lineno)
                    assigned = {n.id for x in inner for n in ast.walk(x) if isinstance(n, ast.Name) and isinstance(n.ctx, ast.Store)}
                    loaded_first = {a.arg for a in fn.args.args + fn.args.kwonlyargs}
                    if not (assigned & loaded_first) and not any(
                            isinstance(n, ast.Attribute) and isinstance(n.ctx, ast.Store) for x in inner for n in ast.walk(x)):
                        # nothing is carried from one element to the next: every element is computed alike
                        self.prog.fn_module[id(step)] = module
                        cache[id(fn)] = step
        step = cache[id(fn)]
        if step is None:
            return None
        return step, module, (self.cls if is_method else None), c, params

    def _stream_next(self, g, events, e):
        got = self._stream_step(g)
        if got is None:
            return None
        step, module, cls, owner, params = got
        if self.depth >= self.MAX_DEPTH:
            raise Unsupported(f"inlining bound reached at {self.module.path}:{e.lineno}")
        sub = Summariser(self.prog, module, cls, step, params=dict(params), fields=self.fields, depth=self.depth + 1,
                         ids=self.ids, stack=self.stack + (f"{e.lineno}:{e.col_offset}",), loops=self.loops,
                         owner=owner, fnstack=self.fnstack)
        sub.facts = list(self.facts)
        sub.base_facts = len(sub.facts)
        ev, term, ret = sub.block(step.body)
        self.fields = sub.exit_fields(term)
        rv = ret if ret is not None else ("const", None)
        events.append(Inlined(f"{module.name}.{step.name}", ev, e.lineno, None, step, dict(params), rv))
        return rv

    def consume_genobj(self, g, kind, events, e):
        """dict(g) / list(g) / sum(g) ... for a generator object g: the generator body runs here."""
        call, params = self.prog.genobjs[g[1]]
        got = []
        depth = len(self.loops)

        def consumer(val, gen, yst):
            got.append((val, tuple(gen.loops[depth:]), gen))
            return []
        res = self.run_generator(call, events, consumer, params=dict(params))
        if res is None:
            raise Unsupported(f"generator object consumed at {self.module.path}:{e.lineno}")
        if len(got) == 1 and len(got[0][1]) == 1 and got[0][1][0] in got[0][2].loop_iters:
            v, (lid,), gen = got[0]
            it = gen.loop_iters[lid]
            if kind == "dict" and v[0] == "tuple" and len(v[1]) == 2:
                return norm_comp(("comp", "dict", lid, it, v[1][0], v[1][1], ()))
            if kind in ("list", "set"):
                return norm_comp(("comp", kind, lid, it, None, v, ()))
            if kind in ("sum", "max", "min", "any", "all", "sorted", "tuple"):
                return ("fn", kind, (norm_comp(("comp", "gen", lid, it, None, v, ())),))
        return ("res", self.site(e), f"builtins.{kind}", (g,), ())

    def generator_display(self, call, events):
        """gen(...) used as a value where every yield of gen lies outside loops: the tuple display of the
        yielded values, a selection between displays when yields are conditional; None if not applicable."""
        target = self._callee_def(call)
        if target is not None:
            c, module, fn, is_method = target
            parents = {}
            for n in ast.walk(fn):
                for ch in ast.iter_child_nodes(n):
                    parents[ch] = n
            looped = False
            for y in self._yields(fn):
                q = parents.get(y)
                while q is not None and q is not fn:
                    looped = looped or isinstance(q, (ast.For, ast.While))
                    q = parents.get(q)
            if looped and fn not in self.fnstack:
                # a generator object: the arguments are evaluated now, the body runs where the object is consumed
                args = tuple(self._expr(a, events) for a in call.args)
                kwargs = tuple((k.arg if k.arg is not None else "**", self._expr(k.value, events)) for k in call.keywords)
                key = self.site(call)
                self.prog.genobjs[key] = (call, self._bind_args(fn, args, kwargs, is_method, call))
                return ("genobj", key)
        got = []
        base = len(self.facts)
        depth = len(self.loops)

        def consumer(val, gen, yst):
            got.append((val, tuple(gen.facts[base:]), len(gen.loops) > depth))
            return []
        probe = []
        res = self.run_generator(call, probe, consumer)
        if res is None:
            return None
        if any(in_loop for _, _, in_loop in got) or len(got) > 4:
            raise Unsupported(f"generator with yields inside loops used as a value at {self.module.path}:{call.lineno}")
        events.extend(probe)

        def pick(i, chosen):
            if i == len(got):
                return ("tuple", tuple(chosen))
            val, facts, _ = got[i]
            if not facts:
                return pick(i + 1, chosen + [val])
            cond = facts[0] if len(facts) == 1 else ("and", tuple(facts))
            return gate(cond, pick(i + 1, chosen + [val]), pick(i + 1, chosen))
        return pick(0, [])

    def closure(self, node):
        """A nested function / lambda as a value.  It is inlined where it is called, with the variables of
        the defining scope as they are at definition time; definitions whose captured variables may be
        rebound afterwards (nonlocal, later assignments in the enclosing function) stay opaque."""
        site = self.site(node)
        opaque = ("lambda", site)
        if any(ast.unparse(d.func if isinstance(d, ast.Call) else d) not in ("functools.wraps", "wraps")
               for d in getattr(node, "decorator_list", ())):
            return opaque
        own = {a.arg for a in node.args.posonlyargs + node.args.args + node.args.kwonlyargs}
        if node.args.vararg:
            own.add(node.args.vararg.arg)
        if node.args.kwarg:
            own.add(node.args.kwarg.arg)
        loaded = set()
        # `nonlocal` names of the enclosing function: the closure reads and rebinds the enclosing function's own
        # variables; followed when it is called by the function that defines it (see inline_closure)
        cells = set()
        for n in node.body if isinstance(node.body, list) else ():
            if isinstance(n, ast.Nonlocal):
                cells |= set(n.names)
        if cells and (not all(c in self.env for c in cells) or cells & own):
            return opaque
        for n in ast.walk(node):
            if isinstance(n, ast.Nonlocal) and n in node.body:
                continue
            if isinstance(n, (ast.Nonlocal, ast.Global, ast.Yield, ast.YieldFrom, ast.Await)):
                return opaque
            if isinstance(n, ast.Name) and n.id in cells:
                continue
            if isinstance(n, ast.Name):
                if isinstance(n.ctx, ast.Store):
                    own.add(n.id)
                else:
                    loaded.add(n.id)
        free = loaded - own
        end = getattr(node, "end_lineno", node.lineno)
        for n in ast.walk(self.fn):
            if isinstance(n, ast.Name) and isinstance(n.ctx, (ast.Store, ast.Del)) and n.id in free and \
                    n.lineno > end and not (node.lineno <= n.lineno <= end):
                return opaque
            if isinstance(n, (ast.FunctionDef, ast.ClassDef)) and n is not node and n.name in free and n.lineno > end:
                return opaque
        self.prog.closures[site] = (node, self.module, self.cls, self.owner, dict(self.env), self.self_name,
                                    self.is_static, self.is_classmethod)
        if cells:
            self.prog.closure_cells[site] = (frozenset(cells), self)
        return ("closure", site)

    def inline_closure(self, recv, args, kwargs, events, call_node):
        node, module, cls, owner, env, self_name, is_static, is_classmethod = self.prog.closures[recv[1]]
        if node in self.fnstack:
            raise Unsupported(f"recursion at {self.module.path}:{call_node.lineno} {ast.unparse(call_node)[:60]}")
        if self.depth >= self.MAX_DEPTH:
            raise Unsupported(f"inlining bound reached at {self.module.path}:{call_node.lineno} {ast.unparse(call_node)[:60]}")
        a = node.args
        _defaults_of = node
        names = [x.arg for x in a.posonlyargs + a.args]
        params = {}
        pos = self._expand_star(args, len(names))
        for n, v in zip(names, pos):
            params[n] = v
        if len(pos) > len(names) and a.vararg:
            params["*"] = ("tuple", tuple(pos[len(names):]))
        kwnames = set(names) | {x.arg for x in a.kwonlyargs}
        extra_kw = []
        for n, v in dict(kwargs).items():
            if n in kwnames:
                params[n] = v
            elif n != "**":
                extra_kw.append((n, v))
        if a.kwarg and "**" not in dict(kwargs):
            params["**"] = ("new", self.site(call_node), "dict", tuple(("kv", ("const", n), v) for n, v in extra_kw))
        if a.vararg and "*" not in params and not any(isinstance(x, tuple) and x and x[0] == "star" for x in args):
            params["*"] = ("tuple", ())
        def default(d):
            # defaults are evaluated where the function is defined: a plain name is the variable's value there
            if isinstance(d, ast.Name) and d.id in env:
                return env[d.id]
            return self._expr_const(d, _defaults_of)
        for n, dflt in zip(names[len(names) - len(a.defaults):], a.defaults):
            if n not in params:
                params[n] = default(dflt)
        for kw, dflt in zip(a.kwonlyargs, a.kw_defaults):
            if kw.arg not in params and dflt is not None:
                params[kw.arg] = default(dflt)
        sub = Summariser(self.prog, module, None, node, params=params, fields=self.fields, depth=self.depth + 1,
                         ids=self.ids, stack=self.stack + (f"{call_node.lineno}:{call_node.col_offset}",),
                         loops=self.loops, owner=owner, fnstack=self.fnstack)
        sub.cls, sub.self_name, sub.is_static, sub.is_classmethod = cls, self_name, is_static, is_classmethod
        if cls is None and any(v == ("self",) for v in params.values()):
            sub.cls = self.cls          # a wrapper working on this very instance: its attributes are the fields
            sub.field_prefix = self.field_prefix
        own_env = sub.env
        sub.env = dict(env)
        sub.env.update(own_env)
        cells, definer = self.prog.closure_cells.get(recv[1], (frozenset(), None))
        escaped = definer if isinstance(definer, str) else None
        if cells and escaped:
            # the defining function has returned: its variables live on only for this closure (see _retire)
            if not all(f"{escaped}.{c}" in self.fields for c in cells):
                raise Unsupported(f"state of closure {node.name} is not known at {self.module.path}:{call_node.lineno}")
            for c in cells:
                sub.env[c] = self.fields[f"{escaped}.{c}"]
        elif cells:
            if definer is not self or not all(c in self.env for c in cells):
                raise Unsupported(f"closure {node.name} rebinding variables of its defining function is called from "
                                  f"elsewhere at {self.module.path}:{call_node.lineno}")
            for c in cells:
                sub.env[c] = self.env[c]
        sub.facts = list(self.facts)
        sub.base_facts = len(sub.facts)
        ev, term, ret = sub.block(node.body)
        if cells:
            if any(facts for facts, _ in sub.exits) or len(sub.exits) > 1 or (term and ret is None):
                raise Unsupported(f"closure {node.name} rebinding variables of its defining function has several exits "
                                  f"at {self.module.path}:{node.lineno}")
        self.fields = sub.exit_fields(term)
        for c in cells:
            if escaped:
                self.fields[f"{escaped}.{c}"] = sub.env[c]
            else:
                self.env[c] = sub.env[c]
        self._retire(sub)
        rv = ret if ret is not None else ("const", None)
        events.append(Inlined(f"<closure {node.name}>", ev, call_node.lineno, None, node, dict(params), rv))
        return rv

    def _retire(self, sub):
        """An inlined function has returned: the variables its closures rebind (`nonlocal`) now belong to those
        closures alone.  They are kept as hidden state `%cellN.<name>`, threaded like the fields of the object."""
        for site, (cells, definer) in list(self.prog.closure_cells.items()):
            if definer is not sub:
                continue
            if any(facts for facts, _ in sub.exits) or not all(c in sub.env for c in cells):
                self.prog.closure_cells[site] = (cells, None)       # left on several paths: not followed
                continue
            key = "%cell" + str(self.prog.cell_ids.setdefault(site, len(self.prog.cell_ids)))
            for c in cells:
                self.fields[f"{key}.{c}"] = sub.env[c]
            self.prog.closure_cells[site] = (cells, key)

    def _record_method(self, recv, meth, args, kwargs, events, e):
        """Method of an immutable record class called on a record display: inlined with `self` bound to the display."""
        names = record_names(recv) if recv[0] == "tuple" else None
        if not names or meth.startswith("_replace"):
            return None
        quals = self.prog.record_classes.get(tuple(names), set())
        if len(quals) != 1:
            return None
        mod, cname = next(iter(quals)).rsplit(".", 1)
        K = self.prog.modules[mod].classes[cname]
        c, m = self.prog.find_method(K, meth)
        if m is None or any(ast.unparse(d) in ("staticmethod", "classmethod", "property") for d in m.decorator_list) \
                or not self._can_inline_function(c.module, m):
            return None
        return self.inline_function(c.module, m, f"{c.qual}.{meth}", (recv,) + tuple(args), dict(kwargs), events, e)

    def _field_method_call(self, fld, meth, args, kwargs, events, e):
        """self.<fld>.<meth>(args) on an object held in a field (fld may be a component `owner.part`)."""
        line = e.lineno
        if "." in fld and fld not in self.fields:
            fld = self._alias_of(fld) or fld
        recv = self.field(fld)
        got = self._record_method(recv, meth, args, kwargs, events, e)
        if got is not None:
            return got
        helper = self._copy_helper(recv, meth) if not meth.startswith("__") else None
        if helper is not None:
            return self.inline_function(helper[0].module, helper[1], f"{helper[0].qual}.{meth}", (recv,) + tuple(args),
                                        dict(kwargs), events, e, level=0)
        if meth in SET_ALGEBRA and len(args) == 1 and not kwargs:
            return ("op", SET_ALGEBRA[meth], recv, args[0])
        if meth == "__getitem__" and len(args) == 1 and not kwargs:
            return ("sub", recv, args[0])
        if meth == "_replace" and not args and record_names(recv) and recv[0] == "tuple" and \
                all(k in recv[2][1:] for k, _ in kwargs):
            new = dict(kwargs)
            return ("tuple", tuple(new.get(n, v) for n, v in zip(recv[2][1:], recv[1])), recv[2])
        if fld.startswith("%") and recv[0] == "new" and recv[2] == "list" and recv[1] in self.prog.list_literals and \
                meth == "append" and len(args) == 1 and not kwargs and not self.loops and \
                not any(isinstance(x, tuple) and x and x[0] == "star" for x in recv[3]) and \
                self._holds_call(args[0]) and self._queue_attribute(fld):
            # the list of pending calls of a local collaborator (`self._todo.append((action, args))` ... `for action,
            # args in self._todo: action(*args)`): the list is the display of what has been appended so far
            self.fields[fld] = ("new", recv[1], "list", recv[3] + (args[0],))
            self.prog.queue_lists.add(recv[1])
            return ("const", None)
        if fld.startswith("%") and recv[0] != "field0":
            # a container held by a local collaborator object: the call is a call on that very object
            res = ("res", self.site(e), "." + meth, (recv,) + tuple(args), kwargs)
            if meth in MUTATORS:
                events.append(Mut(recv, meth, tuple(args), kwargs, res, line))
            else:
                events.append(Call("method", meth, recv, tuple(args), kwargs, res, line))
            if meth == "copy" and not args:
                return ("new", self.site(e), "copy", (recv,))
            return res
        res = ("res", self.site(e), f"self.{fld}.{meth}", args, kwargs)
        events.append(Call(f"self.{fld}", meth, recv, args, kwargs, res, line))
        if meth == "copy" and not args:
            return ("new", self.site(e), "copy", (recv,))
        if self.fluent(recv, meth):
            return recv                 # `self.part.update(v).get()`: the method hands back its receiver
        return res

    def class_of(self, t, depth=0):
        """The package class an object term is an instance of, when the code itself constructs it (directly, as
        a copy of such an object, or in the constructor for a field that is not reassigned); else None."""
        if depth > 4 or not isinstance(t, tuple) or not t:
            return None
        if t == ("self",):
            return self.cls
        if t[0] == "new" and t[2] in ("deepcopy", "copy") and len(t[3]) == 1:
            return self.class_of(t[3][0], depth + 1)
        if t[0] == "new" and isinstance(t[2], str) and "." in t[2] and not t[2].startswith("exc:"):
            try:
                return self.prog.cls(t[2])
            except (KeyError, Unsupported):
                return None
        if t[0] == "gate":
            a, b = self.class_of(t[2], depth + 1), self.class_of(t[3], depth + 1)
            return a if a is b else None
        if t[0] == "field0" and self.cls is not None and "." not in t[1] and not self.field_prefix:
            c, init = self.prog.find_method(self.cls, "__init__")
            if init is None or init in self.fnstack:
                return None
            key = (self._root_key(), t[1])
            cache = self.prog.field_classes
            if key not in cache:
                cache[key] = None
                try:
                    v = self.prog.summarise(self.cls, "__init__").fields.get(t[1])
                except Unsupported:
                    v = None
                if v is not None and v[0] != "field0":
                    cache[key] = self.class_of(v, depth + 1)
            return cache[key]
        return None

    def _copy_helper(self, recv, meth):
        """obj.meth() where every class obj can be an instance of (as far as the code fixes it) inherits the same
        definition of `meth`, and that definition only hands the object on as a whole (`return copy.deepcopy(self)`):
        (class, definition) to inline with the object bound to `self`; else None."""
        def leaves(t):
            return leaves(t[2]) + leaves(t[3]) if t[0] == "gate" else [t]
        found = set()
        for l in leaves(recv):
            K = self.class_of(l)
            if K is None:
                return None
            c, m = self.prog.find_method(K, meth)
            if m is None:
                return None
            found.add((c.qual, id(m)))
            hit = (c, m)
        if len(found) != 1:
            return None
        c, m = hit
        if m.decorator_list or not m.args.args or len(m.body) > 3 or not self._can_inline_function(c.module, m):
            return None
        me = m.args.args[0].arg
        body = [b for b in m.body if not (isinstance(b, ast.Expr) and isinstance(b.value, ast.Constant))]
        if not (len(body) == 1 and isinstance(body[0], ast.Return) and isinstance(body[0].value, ast.Call) and
                ast.unparse(body[0].value.func) in ("copy.deepcopy", "copy.copy", "deepcopy") and
                len(body[0].value.args) == 1 and isinstance(body[0].value.args[0], ast.Name) and body[0].value.args[0].id == me):
            return None
        return c, m

    def fluent(self, recv, meth):
        """Does this method call hand back its receiver (`return self` on every path of the method of the
        receiver's known class)?"""
        K = self.class_of(recv)
        if K is None:
            return False
        c, m = self.prog.find_method(K, meth)
        if m is None or user_decorators(m) or not m.args.args:
            return False
        me = m.args.args[0].arg
        rets = [n for n in _own_nodes(m.body) if isinstance(n, ast.Return)]
        return bool(rets) and isinstance(m.body[-1], ast.Return) and \
            all(isinstance(r.value, ast.Name) and r.value.id == me for r in rets)

    def _owned_class(self, fld):
        """The private collaborator class whose fresh instance the constructor puts into this field, else None."""
        if self.cls is None:
            return None
        root = self._root_key()
        key = (root, fld)
        owned = self.prog.owned
        if key not in owned:
            c, init = self.prog.find_method(self.cls, "__init__")
            inits = [k.methods["__init__"] for k in self.prog.mro(self.cls) if "__init__" in k.methods]
            if self.field_prefix or init is None or any(i in self.fnstack for i in inits) or not any(
                    isinstance(n, ast.Attribute) and n.attr == fld and isinstance(n.ctx, ast.Store)
                    for i in inits for n in ast.walk(i)):
                return None
            owned[key] = None
            try:
                self.prog.summarise(self.cls, "__init__")       # registers the owned objects it constructs
            except Unsupported:
                pass
        return owned.get(key)

    def _inline_owned(self, K, fld, c, m, args, kwargs, events, node):
        """Inline a method of the collaborator object held in self.<fld>: its `self.x` is this instance's `fld.x`."""
        saved = (self.cls, self.field_prefix, getattr(self, "_owner_key", None))
        if not self.field_prefix:
            self._owner_key = self._root_key()
        # the owner handing itself to its collaborator: inside, that value denotes the owner, not the collaborator
        back = ("outer", self.field_prefix)
        args = tuple(back if a == ("self",) else a for a in args)
        kwargs = {k: (back if v == ("self",) else v) for k, v in kwargs.items()}
        self.cls, self.field_prefix = K, fld + "."
        try:
            return self.inline(c, m, args, kwargs, events, node)
        finally:
            self.cls, self.field_prefix, self._owner_key = saved

    def _object_method(self, recv, meth, args, kwargs, events, e, depth=0):
        """obj.meth(...) where obj is a freshly built instance of a private package class that was not given a name
        (`_Helper(x).run()`), or a selection between such instances (a strategy object picked by a condition): the
        constructor and the method are inlined; None if this is not such a call."""
        if depth > 3:
            return None
        if recv[0] == "new" and self._private_class(recv) is not None:
            K = self._private_class(recv)
            c, m = self.prog.find_method(K, meth)
            if m is None or self._yields(m):
                return None
            prefix = f"%anon{e.lineno}:{e.col_offset}:{len(self.stack)}:{recv[1][1]}:{recv[1][2]}"
            if not self._adopt(prefix, recv, events, e):
                return None
            return self._inline_owned(K, prefix, c, m, tuple(args), dict(kwargs), events, e)
        if recv[0] == "gate" and _is_bool(recv[1]):
            def candidate(t):
                return (t[0] == "new" and self._private_class(t) is not None and
                        self.prog.find_method(self._private_class(t), meth)[1] is not None) or \
                    (t[0] == "gate" and candidate(t[2]) and candidate(t[3]))
            if not (candidate(recv[2]) and candidate(recv[3])):
                return None
            cond = recv[1]
            env0, f0 = dict(self.env), dict(self.fields)
            ev_t, ev_e = [], []
            self.facts.append(cond)
            a = self._object_method(recv[2], meth, args, kwargs, ev_t, e, depth + 1)
            self.facts.pop()
            f_t = self.fields
            self.env, self.fields = dict(env0), dict(f0)
            self.facts.append(negate(cond))
            b = self._object_method(recv[3], meth, args, kwargs, ev_e, e, depth + 1) if a is not None else None
            self.facts.pop()
            if a is None or b is None:
                self.env, self.fields = env0, f0
                return None
            events.append(If(cond, ev_t, ev_e, e.lineno, False))
            self.fields = self.merge(cond, f_t, self.fields, field=True)
            return gate(cond, a, b)
        return None

    def _object_choice(self, t):
        """t selects, by a truth value, between two objects at least one of which is a stateless module-level
        instance of a package class (a null object standing in for a container, a strategy singleton)."""
        if t[0] != "gate":
            return False

        def leaves(x):
            return leaves(x[2]) + leaves(x[3]) if x[0] == "gate" else [x]
        return any(self._stateless_instance(x) is not None for x in leaves(t))

    def _stateless_instance(self, t):
        """The class of a module-level `NAME = _Class()` instance without state (no constructor, no attribute of the
        instance is ever assigned), else None.  Its methods are inlined like plain functions."""
        if not (t[0] == "global" and "." in t[1]):
            return None
        r = self.prog.resolve_dotted(t[1])
        if not (r and r[0] == "const"):
            return None
        m, node = r[1]
        if not (isinstance(node, ast.Call) and not node.args and not node.keywords):
            return None
        K = self.prog.resolve_class(m, node.func)
        if K is None or K.record_fields is not None or K.enum_members is not None or self.prog.ext_bases(K) or \
                self.prog.find_method(K, "__init__")[1] is not None or self.prog.instance_attrs(K) or \
                K.qual in self.prog.class_hooks:
            return None
        return K

    def _private_class(self, val):
        """The private package class (not an immutable record) a `new` term instantiates, else None."""
        if not (val[0] == "new" and isinstance(val[2], str) and "." in val[2]):
            return None
        mod, name = val[2].rsplit(".", 1)
        if not name.startswith("_") or mod not in self.prog.modules or name not in self.prog.modules[mod].classes:
            return None
        K = self.prog.modules[mod].classes[name]
        if K.record_fields is not None or \
                any(str(b) not in ("abc.ABC", "ABC", "object", "typing.Generic", "Generic") for b in self.prog.ext_bases(K)):
            return None
        return K

    def _root_key(self):
        if self.field_prefix:
            return self._owner_key
        return self.prog.mro(self.cls)[0].qual if self.cls is not None else f"<{self.module.name}.{self.fn.name}>"

    def _adopt(self, fld, val, events, node):
        """self.<fld> = _Private(...) (or a local): the collaborator's state becomes components `fld.*`."""
        K = self._private_class(val)
        if K is None or (self.cls is None and not fld.startswith("%")):
            return False
        args = tuple(x for x in val[3] if not (isinstance(x, tuple) and x and x[0] == "kw"))
        kwargs = {x[1]: x[2] for x in val[3] if isinstance(x, tuple) and x and x[0] == "kw"}
        root = self._root_key()
        c, init = self.prog.find_method(K, "__init__")
        if init is not None:
            self.prog.owned[(root, fld)] = K
            self._inline_owned(K, fld, c, init, args, kwargs, events, node)
            return True
        if any(ast.unparse(d).split("(")[0] in ("dataclass", "dataclasses.dataclass") for d in K.node.decorator_list):
            names = [n.target.id for n in K.node.body if isinstance(n, ast.AnnAssign) and isinstance(n.target, ast.Name)]
            defaults = {n.target.id: n.value for n in K.node.body
                        if isinstance(n, ast.AnnAssign) and isinstance(n.target, ast.Name) and n.value is not None}
            if len(args) > len(names) or not set(kwargs) <= set(names):
                return False
            vals = dict(zip(names, args))
            vals.update(kwargs)
            for n in names:
                if n not in vals:
                    d = defaults.get(n)
                    if isinstance(d, ast.Constant):
                        vals[n] = ("const", d.value)
                    elif isinstance(d, ast.Call) and ast.unparse(d.func) in ("field", "dataclasses.field") and \
                            any(k.arg == "default_factory" and isinstance(k.value, ast.Name) and k.value.id in ("list", "dict", "set")
                                for k in d.keywords):
                        fac = next(k.value.id for k in d.keywords if k.arg == "default_factory")
                        vals[n] = ("new", self.site(node) + (n,), fac, ())
                    else:
                        return False
            self.prog.owned[(root, fld)] = K
            for n in names:
                self.fields[f"{fld}.{n}"] = vals[n]
                events.append(Store(f"{fld}.{n}", vals[n], node.lineno, None))
            return True
        return False

    def _call_value(self, recv, args, kwargs, events, e):
        """Call of a local that holds a library function / package class / package function, or a
        conditional choice between such (`cls = A if c else B; cls(...)`)."""
        if recv[0] == "global" and recv[1].rsplit(".", 1)[0] in ("builtins.list", "builtins.dict", "builtins.set",
                                                                   "collections.deque") and args and \
                args[0][0] != "star" and recv[1].rsplit(".", 1)[1].isidentifier() and not recv[1].endswith("__"):
            # list.append(L, x): the method of the type, called on L
            node = ast.Call(func=ast.Attribute(value=_Term(args[0], e), attr=recv[1].rsplit(".", 1)[1], ctx=ast.Load()),
                            args=[_Term(a, e) for a in args[1:]],
                            keywords=[ast.keyword(arg=(None if k == "**" else k), value=_Term(v, e)) for k, v in kwargs])
            return self.call(_located(node, e), events)
        if recv[0] == "global" and not recv[1].startswith(("?", "builtins.")):
            return self._dotted_call(recv[1], args, kwargs, events, e)
        if recv[0] == "global" and recv[1].startswith("builtins.") and recv[1][9:] in PURE_BUILTINS and \
                recv[1][9:] not in ("getattr", "zip", "next", "iter", "len", "bool"):
            return ("fn", recv[1][9:], tuple(args) + tuple(("kw",) + kv for kv in kwargs))    # a builtin held in a table
        if recv[0] == "global" and recv[1].startswith("builtins.") and recv[1][9:] in FRESH_BUILTINS and \
                not any(a[0] in ("genobj", "star") for a in args):
            if recv[1][9:] in ("list", "set") and len(args) == 1 and not kwargs and args[0][0] == "comp" and args[0][1] == "gen":
                return ("comp", recv[1][9:]) + args[0][2:]
            return ("new", self.site(e), recv[1][9:], tuple(args) + tuple(("kw",) + kv for kv in kwargs))  # a held container type
        if recv[0] == "closure" and recv[1] in self.prog.closures:
            return self.inline_closure(recv, args, kwargs, events, e)
        if recv[0] == "funcref" and recv[1] in self.prog.funcrefs:
            # the function a decorator received: called from the wrapper it returned
            c, m, level = self.prog.funcrefs[recv[1]]
            pos = self._expand_star(args, 1)
            if c is None:
                mod = self.prog.fn_module[id(m)]
                return self.inline_function(mod, m, f"{mod.name}.{m.name}", tuple(pos), dict(kwargs), events, e, level=level)
            static = any(ast.unparse(d) == "staticmethod" for d in m.decorator_list)
            if not static:
                if not pos or pos[0] != ("self",) or self.cls is None:
                    raise Unsupported(f"wrapped method {m.name} called on another object at {self.module.path}:{e.lineno}")
                pos = pos[1:]
            return self.inline(c, m, tuple(pos), dict(kwargs), events, e, level=level)
        if recv[0] == "partial":
            fn, pargs, pkw = recv[1], recv[2], recv[3]
            kw = tuple(kv for kv in pkw if kv[0] not in dict(kwargs)) + tuple(kwargs)
            bound = self._bound_method_call(fn, pargs + args, dict(kw), events, e)
            if bound is not None:
                return bound
            return self._call_value(fn, pargs + args, kw, events, e)
        if recv[0] == "field0" and recv == self.fields.get(recv[1], recv):
            # a callable held by the instance, reached through a local alias / partial application
            res = ("res", self.site(e), f"self.{recv[1]}", args, kwargs)
            events.append(Call(f"self.{recv[1]}", None, recv, args, kwargs, res, e.lineno))
            return res
        if recv[0] == "attr" and recv[2] == "__getitem__" and len(args) == 1 and not kwargs:
            return ("sub", recv[1], args[0])
        if recv[0] == "attr" and isinstance(recv[2], str) and recv[2].isidentifier() and not recv[2].startswith("__"):
            # a bound method kept in a variable (`write = self._xs.append; write(x)`): the method call itself
            obj, meth = recv[1], recv[2]
            if obj[0] == "global" and obj[1] in ("builtins.list", "builtins.dict", "builtins.set", "collections.deque") and \
                    args and args[0][0] != "star":
                # list.append(L, x): the method of the type, called on L
                node = ast.Call(func=ast.Attribute(value=_Term(args[0], e), attr=meth, ctx=ast.Load()),
                                args=[_Term(a, e) for a in args[1:]],
                                keywords=[ast.keyword(arg=(None if k == "**" else k), value=_Term(v, e)) for k, v in kwargs])
                return self.call(_located(node, e), events)
            got = self._record_method(obj, meth, args, kwargs, events, e)
            if got is not None:
                return got
            if obj[0] == "field0" and self.cls is not None and self.fields.get(obj[1], obj) == obj and "." not in obj[1]:
                # `call = self.part.method; call(x)` is `self.part.method(x)`
                K = self._owned_class(obj[1])
                if K is not None:
                    c, m = self.prog.find_method(K, meth)
                    if m is not None:
                        return self._inline_owned(K, obj[1], c, m, tuple(args), dict(kwargs), events, e)
                return self._field_method_call(obj[1], meth, tuple(args), kwargs, events, e)
            res = ("res", self.site(e), "." + meth, (obj,) + tuple(args), kwargs)
            if meth in MUTATORS:
                events.append(Mut(obj, meth, tuple(args), kwargs, res, e.lineno))
            else:
                events.append(Call("method", meth, obj, tuple(args), kwargs, res, e.lineno))
            return res
        if recv[0] == "getter" and len(args) == 1 and not kwargs:
            if recv[1] == "itemgetter":
                return ("sub", args[0], ("const", recv[2]))
            out = args[0]
            for part in str(recv[2]).split("."):
                if out == ("self",) and self.cls is not None:
                    # attrgetter("name")(self) reads the attribute like `self.name` does
                    me = next((n for n, v in self.env.items() if v == ("self",)), self.self_name)
                    node = ast.copy_location(ast.Attribute(value=ast.Name(id=me, ctx=ast.Load()), attr=part, ctx=ast.Load()), e)
                    ast.fix_missing_locations(node)
                    out = self._expr(node, events)
                elif out[0] == "outer":
                    # the owning object, seen from its collaborator: the attribute is read like `owner.name`
                    node = ast.copy_location(ast.Attribute(value=_Term(out, e), attr=part, ctx=ast.Load()), e)
                    node.end_lineno = getattr(e, "end_lineno", e.lineno)
                    out = self._expr(node, events)
                else:
                    out = attr_of(out, part)
            return out
        if recv[0] == "methodcaller" and len(args) == 1 and not kwargs and args[0] == ("self",) and self.cls is not None and \
                isinstance(recv[1], str):
            c, m = self.prog.find_method(self.cls, recv[1])
            if m is not None:
                return self.inline(c, m, tuple(recv[2]), dict(recv[3]), events, e)      # methodcaller(name, ...)(self) is self.name(...)
        if recv[0] == "methodcaller" and len(args) == 1 and not kwargs and args[0][0] == "field0" and self.cls is not None and \
                "." not in args[0][1] and not self.field_prefix and self.fields.get(args[0][1], args[0]) == args[0] and \
                isinstance(recv[1], str) and self._owned_class(args[0][1]) is None and not self._is_property(args[0][1]):
            # methodcaller(name, ...)(self.part) is self.part.name(...)
            return self._field_method_call(args[0][1], recv[1], tuple(recv[2]), tuple(recv[3]), events, e)
        if recv[0] == "methodcaller" and len(args) == 1 and not kwargs:
            margs, mkw = recv[2], recv[3]
            res = ("res", self.site(e), "." + recv[1], (args[0],) + margs, mkw)
            if recv[1] in MUTATORS:
                events.append(Mut(args[0], recv[1], margs, mkw, res, e.lineno))
            else:
                events.append(Call("method", recv[1], args[0], margs, mkw, res, e.lineno))
            return res
        if recv[0] == "gate":
            def callable_leaf(x):
                return (x[0] == "global" and not x[1].startswith(("?", "builtins."))) or \
                    x[0] in ("closure", "partial", "getter", "methodcaller") or \
                    (x[0] == "attr" and x[2] in _METHOD_NAMES) or \
                    (x[0] == "gate" and callable_leaf(x[2]) and callable_leaf(x[3]))
            cond = recv[1]
            # an alternative that the branch facts exclude (`if f is not None: f(x)`) is not called
            from .rules import boolalg
            try:
                live_t = boolalg.satisfiable(("and", tuple(self.facts) + (cond,)))
                live_e = boolalg.satisfiable(("and", tuple(self.facts) + (negate(cond),)))
            except ValueError:
                live_t = live_e = True
            if live_t and not live_e:
                return self._call_any(recv[2], args, kwargs, events, e)
            if live_e and not live_t:
                return self._call_any(recv[3], args, kwargs, events, e)
            def maybe_callable(x):
                return callable_leaf(x) or x[0] == "gate"
            # `None(...)` raises: an arm that is None contributes no value (the call there is a TypeError)
            if recv[3] == ("const", None) and maybe_callable(recv[2]):
                ev_arm = []
                self.facts.append(cond)
                try:
                    a = self._call_any(recv[2], args, kwargs, ev_arm, e)
                finally:
                    self.facts.pop()
                if a is None:
                    return None
                if ev_arm:
                    events.append(If(cond, ev_arm, [], e.lineno, False))
                return gate(cond, a, RAISES)
            if recv[2] == ("const", None) and maybe_callable(recv[3]):
                ev_arm = []
                self.facts.append(negate(cond))
                try:
                    b = self._call_any(recv[3], args, kwargs, ev_arm, e)
                finally:
                    self.facts.pop()
                if b is None:
                    return None
                if ev_arm:
                    events.append(If(cond, [], ev_arm, e.lineno, False))
                return gate(cond, RAISES, b)
            if not (maybe_callable(recv[2]) and maybe_callable(recv[3])):
                return None
            env0, f0 = dict(self.env), dict(self.fields)
            ev_t, ev_e = [], []
            self.facts.append(cond)
            a = self._call_any(recv[2], args, kwargs, ev_t, e)
            self.facts.pop()
            f_t = self.fields
            self.env, self.fields = dict(env0), dict(f0)
            self.facts.append(negate(cond))
            b = self._call_any(recv[3], args, kwargs, ev_e, e) if a is not None else None
            self.facts.pop()
            if a is None or b is None:
                self.env, self.fields = env0, f0
                return None
            events.append(If(cond, ev_t, ev_e, e.lineno, False))
            self.fields = self.merge(cond, f_t, self.fields, field=True)
            return gate(cond, a, b)
        return None

    def _call_any(self, recv, args, kwargs, events, e):
        bound = self._bound_method_call(recv, args, dict(kwargs), events, e)
        if bound is not None:
            return bound
        return self._call_value(recv, args, kwargs, events, e)

    def _dotted_call(self, d, args, kwargs, events, e):
        """Call of a resolved dotted name (external library, package class or package function)."""
        line = e.lineno
        if d.startswith("random.") or d.startswith("numpy.random.") or d in ("random", "numpy.random"):
            res = ("draw", self.site(e), d, args, kwargs, self.loops)
            events.append(Draw(d, args, kwargs, res, line))
            return res
        if d == "types.SimpleNamespace" and not args and all(k != "**" for k, _ in kwargs):
            # a fresh attribute bag: what is stored under its attributes is tracked like local state
            ns = ("new", self.site(e), "types.SimpleNamespace", ())
            for k, v in kwargs:
                self.fields[_ns_key(ns) + k] = v
                events.append(Store(_ns_key(ns) + k, v, line, None))
            return ns
        if d == "itertools.repeat" and len(args) == 2 and not kwargs:
            lid = self.ids.next()           # repeat(v, n): v for each of range(n)
            return ("comp", "gen", lid, ("fn", "range", (args[1],)), None, args[0], ())
        if d in PURE_EXT:
            return ("fn", PURE_EXT[d], args + tuple(("kw",) + kv for kv in kwargs))
        if d in OPERATOR_EXT and len(args) == 2 and not kwargs:
            return ("op", OPERATOR_EXT[d], args[0], args[1])
        if d in OPERATOR_CMP and len(args) == 2 and not kwargs:
            return cmp_term(OPERATOR_CMP[d], args[0], args[1])
        if d == "operator.getitem" and len(args) == 2 and not kwargs:
            return ("sub", args[0], args[1])
        if d == "operator.setitem" and len(args) == 3 and not kwargs:
            events.append(SubStore(args[0], args[1], args[2], line, None))
            return ("const", None)
        if d == "operator.delitem" and len(args) == 2 and not kwargs:
            events.append(Del(args[0], args[1], line))
            return ("const", None)
        if d == "operator.neg" and len(args) == 1 and not kwargs:
            return ("op", "-", ("const", 0), args[0])
        if d == "operator.not_" and len(args) == 1 and not kwargs:
            return negate(args[0])
        if d == "itertools.compress" and len(args) == 2 and not kwargs and args[0][0] == "tuple" and \
                args[1][0] == "tuple" and len(args[0]) == 2 and len(args[1]) == 2 and len(args[1][1]) <= len(args[0][1]):
            # selection of the items of a display by a display of flags: a choice between sub-displays
            def pick(i, chosen):
                if i == len(args[1][1]):
                    return ("tuple", tuple(chosen))
                sel = args[1][1][i]
                known = const_truth(sel)
                if known is not None:
                    return pick(i + 1, chosen + [args[0][1][i]] if known else chosen)
                return gate(sel, pick(i + 1, chosen + [args[0][1][i]]), pick(i + 1, chosen))
            if sum(1 for x in args[1][1] if const_truth(x) is None) <= 3:
                return pick(0, [])
        if d == "functools.partial" and args and not any(k == "**" for k, _ in kwargs) and \
                not any(isinstance(a, tuple) and a and a[0] == "star" for a in args):
            return ("partial", args[0], args[1:], kwargs)
        if d in ("operator.attrgetter", "operator.itemgetter") and len(args) == 1 and not kwargs and args[0][0] == "const":
            return ("getter", d.rsplit(".", 1)[1], args[0][1])
        if d == "operator.methodcaller" and args and args[0][0] == "const" and isinstance(args[0][1], str):
            return ("methodcaller", args[0][1], args[1:], kwargs)
        if d in COPY_EXT:
            return ("new", self.site(e), COPY_EXT[d], args)
        if d in IDENTITY_EXT and args:
            return args[0]
        r = self.prog.resolve_dotted(d)
        if r[0] == "class":
            return self._construct(r[1], args, kwargs, events, e)
        if r[0] == "func":
            m, node = r[1]
            q = f"{m.name}.{node.name}"
            if self._can_inline_function(m, node):
                return self.inline_function(m, node, q, args, dict(kwargs), events, e)
            res = ("res", self.site(e), q, args, kwargs)
            events.append(Call(q, None, None, args, kwargs, res, line))
            return res
        res = ("res", self.site(e), d, args, kwargs)
        events.append(Call(d, None, None, args, kwargs, res, line))
        return res

    def _bound_method_call(self, recv, args, kwargs, events, node):
        """Call of a local holding `self.method` (or a conditional choice between such): inline it."""
        if self.cls is None:
            return None

        def method_of(t):
            if t[0] == "global":
                for c in self.prog.mro(self.cls):
                    if t[1].startswith(c.qual + "."):
                        name = t[1][len(c.qual) + 1:]
                        if name in c.methods:
                            return self.prog.find_method(self.cls, name)
            return None
        if recv[0] == "gate":
            a, b = method_of(recv[2]), method_of(recv[3])
            if a is None or b is None or a[1] is None or b[1] is None:
                return None
            cond = recv[1]
            env0, f0 = dict(self.env), dict(self.fields)
            ev_t, ev_e = [], []
            self.facts.append(cond)
            rt = self.inline(a[0], a[1], args, kwargs, ev_t, node)
            self.facts.pop()
            env_t, f_t = self.env, self.fields
            self.env, self.fields = dict(env0), dict(f0)
            self.facts.append(negate(cond))
            re_ = self.inline(b[0], b[1], args, kwargs, ev_e, node)
            self.facts.pop()
            events.append(If(cond, ev_t, ev_e, node.lineno))
            self.env = self.merge(cond, env_t, self.env)
            self.fields = self.merge(cond, f_t, self.fields, field=True)
            return gate(cond, rt, re_)
        m = method_of(recv)
        if m is not None and m[1] is not None:
            return self.inline(m[0], m[1], args, kwargs, events, node)
        if self.field_prefix and recv[0] == "global" and isinstance(self._root_key(), str) and not self._root_key().startswith("<"):
            # a bound method of the owning object, called back from inside its collaborator
            try:
                root = self.prog.cls(self._root_key())
            except Unsupported:
                return None
            saved = (self.cls, self.field_prefix, getattr(self, "_owner_key", None))
            self.cls, self.field_prefix = root, ""
            try:
                m = method_of(recv)
                if m is not None and m[1] is not None:
                    return self.inline(m[0], m[1], args, kwargs, events, node)
            finally:
                self.cls, self.field_prefix, self._owner_key = saved
        return None

    def _is_property(self, name):
        if self.cls is None:
            return False
        c, m = self.prog.find_method(self.cls, name)
        return m is not None

    def _defining_class(self):
        for c in self.prog.mro(self.cls):
            if self.fn in c.methods.values():
                return c
        return self.cls

    @staticmethod
    def _expand_star(args, n_params):
        """Positional arguments with *tuple expanded (unknown iterables are indexed positionally)."""
        out = []
        for x in args:
            if isinstance(x, tuple) and x and x[0] == "star":
                v = x[1]
                if v[0] == "tuple":
                    out.extend(v[1])
                elif v[0] == "new" and v[2] in ("list",) and all(not (isinstance(i, tuple) and i and i[0] == "star") for i in v[3]):
                    out.extend(v[3])
                else:
                    k = 0
                    while len(out) < n_params:
                        out.append(tget(v, k))
                        k += 1
            else:
                out.append(x)
        return out

    def descriptor(self, attr):
        """The property object a class-level assignment `attr = factory(...)` binds (a property built by a function of
        the package from nested getter / setter functions): ("property", getter, setter) or None."""
        if self.cls is None:
            return None
        for k in self.prog.mro(self.cls):
            node = k.class_attrs.get(attr)
            if node is None:
                continue
            if not isinstance(node, ast.Call):
                return None
            key = (k.qual, attr)
            cache = self.prog.descriptors
            if key not in cache:
                cache[key] = None
                holder = ast.parse("def __class_body__():\n    pass\n").body[0]
                for n in ast.walk(holder):
                    if hasattr(n, "lineno"):
                        n.lineno = n.end_lineno = node.lineno
                sub = Summariser(self.prog, k.module, None, holder, params={}, fields={}, depth=0, ids=self.ids,
                                 stack=(f"classattr:{k.name}.{attr}",), fnstack=())
                try:
                    val = sub.expr(node, [])
                except Unsupported:
                    val = None
                if val is not None and val[0] == "property":
                    cache[key] = val
            return cache[key]
        return None

    def enum_member(self, K, name):
        node = K.enum_members[name]
        val = self._const_term(K.module, node)
        if isinstance(node, ast.Call) and ast.unparse(node.func) in ("auto", "enum.auto") and not node.args and \
                not self.prog.find_method(K, "_generate_next_value_")[1]:
            # enum.auto(): the next value after the members written before it
            last, ok = None, True
            for n2, node2 in K.enum_members.items():
                if isinstance(node2, ast.Call) and ast.unparse(node2.func) in ("auto", "enum.auto"):
                    if K.enum_kind == "str":
                        cur = n2.lower()
                    elif K.enum_kind == "flag":
                        cur = 1 if not last else 1 << int(last).bit_length()
                    else:
                        cur = 1 if last is None else last + 1
                else:
                    v2 = self._const_term(K.module, node2)
                    if v2 is None or v2[0] != "const" or (K.enum_kind != "str" and not isinstance(v2[1], int)):
                        ok = False
                        break
                    cur = v2[1]
                if K.enum_kind == "flag" and isinstance(cur, int) and last is not None:
                    last = max(last, cur)
                else:
                    last = cur
                if n2 == name:
                    break
            val = ("const", cur) if ok else None
        if val is not None and val[0] == "tuple":
            val = None
        return ("enum", K.qual, name, val if (val is not None and val[0] == "const") else None, K.enum_kind)

    def enum_lookup(self, K, arg, events, e):
        """K(value): the member with that value; for a value that is not known, a selection over the members by
        `value == member value`, ending in K._missing_(value) or, without one, in an exception."""
        members = [self.enum_member(K, n) for n in K.enum_members]
        if arg[0] == "enum" and arg[1] == K.qual:
            return arg
        if arg[0] == "gate":
            return gate(arg[1], self.enum_lookup(K, arg[2], events, e), self.enum_lookup(K, arg[3], events, e))
        if arg[0] == "const":
            for m_ in members:
                if m_[3] is not None and m_[3][1] == arg[1] and type(m_[3][1]) is type(arg[1]):
                    return m_
        if any(m_[3] is None for m_ in members):
            raise Unsupported(f"enumeration {K.name} looked up by value at {self.module.path}:{e.lineno}: member values are not constants")
        vals = [m_[3][1] for m_ in members]
        if set(map(type, vals)) == {bool} and set(vals) == {True, False} and (arg[0] == "fn" and arg[1] == "bool" or _is_bool(arg)):
            cond = arg[2][0] if arg[0] == "fn" else arg
            return gate(cond, next(m_ for m_ in members if m_[3][1] is True), next(m_ for m_ in members if m_[3][1] is False))
        c, miss = self.prog.find_method(K, "_missing_")
        if arg[0] == "const":
            if miss is None:
                events.append(Raise(("new", self.site(e), "exc:ValueError", (arg,)), e.lineno))
                return RAISES
        if miss is not None:
            tail = self.inline(c, miss, (arg,), {}, events, e, cm_cls=K)
        else:
            tail = RAISES               # ValueError: not a member
            none = tuple(negate(cmp_term("==", arg, m_[3])) for m_ in members)
            events.append(If(none[0] if len(none) == 1 else ("and", none),
                             [Raise(("new", self.site(e), "exc:ValueError", (arg,)), e.lineno)], [], e.lineno, False))
        out = tail
        for m_ in reversed(members):
            out = gate(cmp_term("==", arg, m_[3]), m_, out)
        return out

    def enum_method(self, recv, meth, args, kwargs, events, e, depth=0):
        """member.method(...) for an enumeration member (or a selection between members): the method is inlined with
        self bound to the member, arm by arm."""
        if depth > 4:
            return None
        if recv[0] == "enum":
            K = self.prog.cls(recv[1])
            c, m = self.prog.find_method(K, meth)
            if m is None or any(ast.unparse(d) == "property" for d in m.decorator_list) or \
                    not self._can_inline_function(c.module, m):
                return None
            decos = [ast.unparse(d) for d in m.decorator_list]
            if "staticmethod" in decos:
                return self.inline_function(c.module, m, f"{c.qual}.{meth}", tuple(args), dict(kwargs), events, e, level=0)
            if "classmethod" in decos:
                return self.inline(c, m, tuple(args), dict(kwargs), events, e, cm_cls=K)
            return self.inline_function(c.module, m, f"{c.qual}.{meth}", (recv,) + tuple(args), dict(kwargs), events, e, level=0)
        if recv == RAISES:
            return recv             # no member: the lookup has raised on this arm
        if recv[0] == "gate" and all(l[0] == "enum" or l == RAISES for l in _gate_leaves(recv)) and \
                any(l[0] == "enum" for l in _gate_leaves(recv)):
            cond = recv[1]
            env0, f0 = dict(self.env), dict(self.fields)
            ev_t, ev_e = [], []
            self.facts.append(cond)
            a = self.enum_method(recv[2], meth, args, kwargs, ev_t, e, depth + 1)
            self.facts.pop()
            f_t = self.fields
            self.env, self.fields = dict(env0), dict(f0)
            self.facts.append(negate(cond))
            b = self.enum_method(recv[3], meth, args, kwargs, ev_e, e, depth + 1) if a is not None else None
            self.facts.pop()
            if a is None or b is None:
                self.env, self.fields = env0, f0
                return None
            if ev_t or ev_e:
                events.append(If(cond, ev_t, ev_e, e.lineno, False))
            self.fields = self.merge(cond, f_t, self.fields, field=True)
            return gate(cond, a, b)
        return None

    def wrapper_of(self, c, m, level):
        """The callable a decorated definition is bound to after its `level` innermost user decorators have been
        applied: the decorator is run on a reference to the definition and must hand back a nested function
        (closure) of the package, which is inlined wherever the definition is called."""
        key = (c.qual if c is not None else None, m.name, m.lineno, level)
        cache = self.prog.wrappers
        if key not in cache:
            d = user_decorators(m)[level - 1]
            module = getattr(d, "_module", None) or (c.module if c is not None else self.prog.fn_module[id(m)])
            where = f"{module.path}:{m.lineno}"
            inner = (key[0], m.name, m.lineno, level - 1)
            self.prog.funcrefs[inner] = (c, m, level - 1)
            holder = ast.parse("def __decorate__(__wrapped__):\n    pass\n").body[0]
            call = ast.Call(func=d, args=[ast.Name(id="__wrapped__", ctx=ast.Load())], keywords=[])
            ast.copy_location(call, d)
            ast.fix_missing_locations(call)
            for n in ast.walk(holder):
                if hasattr(n, "lineno"):
                    n.lineno = n.end_lineno = m.lineno
            sub = Summariser(self.prog, module, None, holder, params={"__wrapped__": ("funcref", inner)}, fields={},
                             depth=0, ids=self.ids, stack=(f"deco:{m.name}:{m.lineno}:{level}",), fnstack=())
            val = sub.expr(call, [])
            if not (val[0] == "closure" and val[1] in self.prog.closures):
                raise Unsupported(f"decorator @{ast.unparse(d)} on {m.name} at {where} is not followed "
                                  f"(it does not return a nested function of the package)")
            cache[key] = val
        return cache[key]

    def inline(self, c, m, args, kwargs, events, node, level=None, cm_cls=None):
        if self.depth >= self.MAX_DEPTH:
            raise Unsupported(f"inlining bound reached at {self.module.path}:{node.lineno} {ast.unparse(node)[:60]}")
        if level is None:
            level = len(user_decorators(m))
        if level > 0:
            w = self.wrapper_of(c, m, level)
            static = any(ast.unparse(d) == "staticmethod" for d in m.decorator_list)
            pos = tuple(args) if static else (("self",),) + tuple(args)
            return self.inline_closure(w, pos, tuple(kwargs.items()), events, node)
        if m in self.fnstack:
            raise Unsupported(f"recursion at {self.module.path}:{node.lineno} {ast.unparse(node)[:60]}")
        a = m.args
        _defaults_of = m
        names = [x.arg for x in a.posonlyargs + a.args]
        decos = [ast.unparse(d) for d in m.decorator_list]
        if "staticmethod" not in decos:
            names = names[1:]
        params = {}
        pos = self._expand_star(args, len(names))
        for n, v in zip(names, pos):
            params[n] = v
        if len(pos) > len(names) and a.vararg:
            params["*"] = ("tuple", tuple(pos[len(names):]))
        extra_kw = []
        kwnames = set(names) | {x.arg for x in a.kwonlyargs}
        for n, v in kwargs.items():
            if n in kwnames:
                params[n] = v
            else:
                extra_kw.append((n, v))
        if extra_kw and a.kwarg:
            params["**"] = ("new", self.site(node), "dict", tuple(("kv", ("const", n), v) for n, v in extra_kw))
        defaults = a.defaults
        for n, dflt in zip(names[len(names) - len(defaults):], defaults):
            if n not in params:
                params[n] = self._expr_const(dflt, _defaults_of)
        for kw, dflt in zip(a.kwonlyargs, a.kw_defaults):
            if kw.arg not in params and dflt is not None:
                params[kw.arg] = self._expr_const(dflt, _defaults_of)
        sub = Summariser(self.prog, c.module, self.cls, m, params=params, fields=self.fields,
                         depth=self.depth + 1, ids=self.ids,
                         stack=self.stack + (f"{node.lineno}:{node.col_offset}",), loops=self.loops,
                         owner=c, fnstack=self.fnstack)
        sub.field_prefix = self.field_prefix
        sub.cm_cls = cm_cls
        sub._owner_key = getattr(self, "_owner_key", None)
        sub.facts = list(self.facts)
        sub.base_facts = len(sub.facts)
        for n in ast.walk(m):
            if isinstance(n, (ast.Yield, ast.YieldFrom)):
                raise Unsupported(f"generator {m.name} inlined at {self.module.path}:{node.lineno}")
        ev, term, ret = sub.block(m.body)
        self.fields = sub.exit_fields(term)
        self._retire(sub)
        rv = memo_value(m, ret if ret is not None else ("const", None))
        events.append(Inlined(f"{c.name}.{m.name}", ev, node.lineno, c, m, dict(params), rv))
        return rv

    NO_INLINE = ("validate_model_function", "validate_loss_function")

    def _can_inline_function(self, m, node):
        """Package-level helper functions are inlined unless recursive, generators, or one of the
        validators (kept as named calls: roles are inferred from them)."""
        if node.name in self.NO_INLINE or node in self.fnstack or self.depth >= self.MAX_DEPTH:
            return False
        for n in ast.walk(node):
            if isinstance(n, (ast.Yield, ast.YieldFrom)):
                return False
            if isinstance(n, ast.Call) and isinstance(n.func, ast.Name) and n.func.id == node.name:
                return False        # directly recursive
        return True

    def inline_function(self, m, node, q, args, kwargs, events, call_node, level=None):
        """Inline a module-level package function (no self)."""
        if level is None:
            level = len(user_decorators(node))
        if level > 0:
            return self.inline_closure(self.wrapper_of(None, node, level), tuple(args), tuple(kwargs.items()), events, call_node)
        a = node.args
        _defaults_of = node
        names = [x.arg for x in a.posonlyargs + a.args]
        params = {}
        pos = self._expand_star(args, len(names))
        for n, v in zip(names, pos):
            params[n] = v
        kwnames = set(names) | {x.arg for x in a.kwonlyargs}
        for n, v in kwargs.items():
            if n in kwnames:
                params[n] = v
        for n, dflt in zip(names[len(names) - len(a.defaults):], a.defaults):
            if n not in params:
                params[n] = self._expr_const(dflt, _defaults_of)
        for kw, dflt in zip(a.kwonlyargs, a.kw_defaults):
            if kw.arg not in params and dflt is not None:
                params[kw.arg] = self._expr_const(dflt, _defaults_of)
        sub = Summariser(self.prog, m, None, node, params=params, fields=self.fields, depth=self.depth + 1,
                         ids=self.ids, stack=self.stack + (f"{call_node.lineno}:{call_node.col_offset}",),
                         loops=self.loops, owner=None, fnstack=self.fnstack)
        if any(v == ("self",) for v in params.values()):
            sub.cls = self.cls          # the helper works on this very instance: its attributes are the fields
        sub.facts = list(self.facts)
        sub.base_facts = len(sub.facts)
        ev, term, ret = sub.block(node.body)
        self.fields = sub.exit_fields(term)
        self._retire(sub)
        rv = memo_value(node, ret if ret is not None else ("const", None))
        events.append(Inlined(q, ev, call_node.lineno, None, node, dict(params), rv))
        return rv

    def _const_term(self, m, node, depth=0):
        """Value of a module-level constant expression built from literals, immutable records, functions /
        classes and operator helpers (lookup tables, sentinels); None if it is anything else."""
        if depth > 8:
            return None
        if isinstance(node, ast.Constant):
            return ("const", node.value)
        if isinstance(node, ast.UnaryOp) and isinstance(node.op, ast.USub) and isinstance(node.operand, ast.Constant):
            return ("const", -node.operand.value)
        if isinstance(node, ast.Tuple):
            items = [self._const_term(m, x, depth + 1) for x in node.elts]
            return ("tuple", tuple(items)) if all(i is not None for i in items) else None
        if isinstance(node, ast.Name):
            r = self.prog.resolve_name(m, node.id)
            if r is None:
                if node.id in PURE_BUILTINS or node.id in FRESH_BUILTINS:
                    return ("global", "builtins." + node.id)
                return None
            if r[0] == "const":
                if node.id in self.prog.mutated_names and not isinstance(r[1][1], ast.Constant):
                    return None         # a module-level container that is changed in place somewhere: not a constant
                return self._const_term(r[1][0], r[1][1], depth + 1)
            if r[0] == "class":
                return ("global", r[1].qual)
            if r[0] == "func":
                return ("global", f"{r[1][0].name}.{r[1][1].name}")
            if r[0] == "ext":
                return ("global", r[1])
            return None
        if isinstance(node, ast.Attribute):
            if isinstance(node.value, ast.Name) and node.attr not in self.prog.mutated_attrs:
                r = self.prog.resolve_name(m, node.value.id)
                if r and r[0] == "class":
                    # Class.ATTR: a constant of the class body, unless something assigns the attribute elsewhere
                    for k in self.prog.mro(r[1]):
                        if node.attr in k.class_attrs:
                            if node.attr in self.prog.instance_attrs(r[1]):
                                return None
                            return self._const_term(k.module, k.class_attrs[node.attr], depth + 1)
            d = self.prog.dotted_of(m, node)
            return ("global", d) if d is not None else None
        if isinstance(node, ast.Dict):
            entries = []
            for k, v in zip(node.keys, node.values):
                vt = self._const_term(m, v, depth + 1)
                if k is None:
                    if vt is None or vt[0] != "constdict":
                        return None
                    entries.extend(vt[1])               # {**OTHER_TABLE, ...}
                    continue
                kt = self._const_term(m, k, depth + 1)
                if kt is None or kt[0] != "const" or vt is None:
                    return None
                entries.append((kt, vt))
            merged = {}
            for kt, vt in entries:
                merged[kt] = vt                          # a later entry replaces an earlier one with the same key
            return ("constdict", tuple(merged.items()))
        if isinstance(node, ast.Call) and not any(isinstance(a, ast.Starred) for a in node.args) and \
                all(k.arg is not None for k in node.keywords):
            args = [self._const_term(m, a, depth + 1) for a in node.args]
            kw = [(k.arg, self._const_term(m, k.value, depth + 1)) for k in node.keywords]
            if any(a is None for a in args) or any(v is None for _, v in kw):
                return None
            cls = self.prog.resolve_class(m, node.func)
            if cls is not None and cls.record_fields is not None:
                v = self._construct(cls, tuple(args), tuple(kw), [], node)
                return v if v[0] == "tuple" else None
            d = self.prog.dotted_of(m, node.func) if isinstance(node.func, (ast.Attribute, ast.Name)) else None
            if d is None and isinstance(node.func, ast.Name):
                r = self.prog.resolve_name(m, node.func.id)
                d = r[1] if r and r[0] == "ext" else None
            if d == "types.MappingProxyType" and len(args) == 1 and not kw and args[0][0] == "constdict":
                return args[0]                  # a read-only view of a table is the table
            if d in ("operator.attrgetter", "operator.itemgetter", "operator.methodcaller", "functools.partial"):
                ev = []
                v = self._dotted_call(d, tuple(args), tuple(kw), ev, node)
                return v if not ev and v[0] in ("getter", "methodcaller", "partial") else None
        return None

    def _expr_const(self, e, owner_fn=None):
        if isinstance(e, ast.Constant):
            return ("const", e.value)
        if isinstance(e, ast.Name) and e.id == "__dataclass_MISSING__":
            return MISSING
        if isinstance(e, ast.UnaryOp) and isinstance(e.op, ast.USub) and isinstance(e.operand, ast.Constant):
            return ("const", -e.operand.value)
        # a default written as a module-level constant (`mode=_DEFAULT_MODE`) is its value
        m = self.prog.fn_module.get(id(owner_fn)) if owner_fn is not None else None
        if m is not None and isinstance(e, (ast.Name, ast.Attribute)):
            v = self._const_term(m, e)
            if v is not None and v[0] == "const":
                return v
            if v is not None and v[0] == "global" and not v[1].startswith("?") and isinstance(e, ast.Attribute):
                return v            # a library function as default (`randrange=random.randrange`)
        return ("default", ast.unparse(e))


def _plain_list(node):
    """A list display written out item by item (no `*xs` inside)."""
    return isinstance(node, ast.List) and not any(isinstance(x, ast.Starred) for x in node.elts)


def _resolve_tgets(t):
    """Components of tuple displays read by position: (a, b).0 is a."""
    if not isinstance(t, tuple) or not t:
        return t
    t = tuple(_resolve_tgets(x) if isinstance(x, tuple) else x for x in t)
    if t[0] == "tget" and isinstance(t[1], tuple) and t[1] and t[1][0] == "tuple" and isinstance(t[2], int) and t[2] < len(t[1][1]):
        return t[1][1][t[2]]
    if t[0] == "cmp" and len(t) == 4:
        return cmp_term(t[1], t[2], t[3])
    return t


def _located(node, at):
    ast.copy_location(node, at)
    ast.fix_missing_locations(node)
    end = getattr(at, "end_lineno", None) or at.lineno
    for n in ast.walk(node):
        if hasattr(n, "lineno") and getattr(n, "end_lineno", None) is None:
            n.end_lineno = end
    return node


def _arm_exits(stmts):
    """(some path leaves the function, every path leaves the function) for a statement list."""
    some = False
    for st in stmts:
        if isinstance(st, (ast.Return, ast.Raise)):
            return True, True
        if isinstance(st, ast.If):
            s1, a1 = _arm_exits(st.body)
            s2, a2 = _arm_exits(st.orelse)
            some = some or s1 or s2
            if a1 and a2:
                return True, True
        elif isinstance(st, (ast.With,)):
            s1, a1 = _arm_exits(st.body)
            some = some or s1
            if a1:
                return True, True
        elif isinstance(st, ast.Try):
            s1, _ = _arm_exits(st.body)
            some = some or s1 or any(_arm_exits(h.body)[0] for h in st.handlers)
    return some, False


def _partial_exit(st):
    """An `if` some of whose paths (but not a whole arm) leave the function."""
    s1, a1 = _arm_exits(st.body)
    s2, a2 = _arm_exits(st.orelse)
    return (s1 and not a1) or (s2 and not a2)


RAISES = ("raises",)


def _gate_ret(cond, a, b, a_term=True, b_term=True):
    """Returned value of an `if` whose arms return a / b. An arm that terminates without a value raised:
    it is kept as the marker ("raises",) so that the other arm's value stays tied to its condition."""
    if a is None and a_term:
        a = RAISES
    if b is None and b_term:
        b = RAISES
    if a is None and b is None:
        return None
    if a is None:
        return b if b != RAISES else None
    if b is None:
        return a if a != RAISES else None
    if a == RAISES and b == RAISES:
        return None
    return gate(cond, a, b)


def _has_exit(events):
    """A `return` that leaves the enclosing loop (returns of inlined callees only leave the callee;
    a `raise` ends the path abnormally and does not affect the state after the loop)."""
    for ev in events:
        if isinstance(ev, Return):
            return True
        if isinstance(ev, If) and (_has_exit(ev.then) or _has_exit(ev.orelse)):
            return True
        if isinstance(ev, (Loop, With)) and _has_exit(ev.body):
            return True
        if isinstance(ev, Try) and (_has_exit(ev.body) or any(_has_exit(h.body) for h in ev.handlers)):
            return True
    return False


# ------------------------------------------------------------------------------------------------
# dumping (diagnostics)
# ------------------------------------------------------------------------------------------------
def dump(events, ind=0, out=None):
    import sys
    out = out or sys.stdout
    pad = "  " * ind
    for ev in events:
        if isinstance(ev, If):
            print(f"{pad}IF {show(ev.cond)}  line {ev.line}", file=out)
            dump(ev.then, ind + 1, out)
            if ev.orelse:
                print(f"{pad}ELSE", file=out)
                dump(ev.orelse, ind + 1, out)
        elif isinstance(ev, Loop):
            print(f"{pad}LOOP#{ev.lid} {ev.target} in {show(ev.iter)}  line {ev.line}", file=out)
            dump(ev.body, ind + 1, out)
            for n, (i, nx) in ev.carried.items():
                print(f"{pad}  carried {n}: init={show(i)} next={show(nx)}", file=out)
        elif isinstance(ev, Try):
            print(f"{pad}TRY  line {ev.line}", file=out)
            dump(ev.body, ind + 1, out)
            for h in ev.handlers:
                print(f"{pad}EXCEPT {h.exc}", file=out)
                dump(h.body, ind + 1, out)
        elif isinstance(ev, Inlined):
            print(f"{pad}INLINED {ev.qual}  line {ev.line}", file=out)
            dump(ev.body, ind + 1, out)
        elif isinstance(ev, With):
            print(f"{pad}WITH  line {ev.line}", file=out)
            dump(ev.body, ind + 1, out)
        elif isinstance(ev, Call):
            a = ", ".join([show(x) for x in ev.args] + [f"{n}={show(v)}" for n, v in ev.kwargs])
            rc = f" recv={show(ev.recv)}" if ev.callee in ("method", "expr") else ""
            print(f"{pad}CALL {ev.callee}{'.' + ev.method if ev.method else ''}({a}){rc}  line {ev.line}", file=out)
        elif isinstance(ev, Draw):
            print(f"{pad}DRAW {show(ev.res)}  line {ev.line}", file=out)
        elif isinstance(ev, Store):
            print(f"{pad}STORE self.{ev.field} = {show(ev.value)}  line {ev.line}", file=out)
        elif isinstance(ev, SubStore):
            print(f"{pad}SUBSTORE {show(ev.cont)}[{show(ev.key)}] = {show(ev.value)}  line {ev.line}", file=out)
        elif isinstance(ev, Mut):
            print(f"{pad}MUT {show(ev.recv)}.{ev.method}({', '.join(show(x) for x in ev.args)})  line {ev.line}",
                  file=out)
        elif isinstance(ev, Return):
            print(f"{pad}RETURN {show(ev.value)}  line {ev.line}", file=out)
        elif isinstance(ev, Construct):
            a = ", ".join([show(x) for x in ev.args] + [f"{n}={show(v)}" for n, v in ev.kwargs])
            print(f"{pad}NEW {ev.qual}({a})  line {ev.line}", file=out)
        else:
            print(f"{pad}{type(ev).__name__.upper()} " +
                  " ".join(show(x) if isinstance(x, tuple) else str(x) for x in ev), file=out)


if __name__ == "__main__":
    import sys
    prog = Program()
    print(len(prog.modules), "modules")
    for t in sys.argv[1:]:
        q, m = t.split(":")
        print("=" * 100, "\n", t)
        s = prog.summarise(q, m) if q.rsplit(".", 1)[1][0].isupper() else prog.summarise_func(q + "." + m)
        dump(s.events)
        print("RET:", show(s.ret))
        for f, v in s.fields.items():
            if v != ("field0", f):
                print(f"FIELD {f} := {show(v)}")
