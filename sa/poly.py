"""Exact rational-function normal form over opaque atoms (DESIGN.md 3.4).

A polynomial is a dict {monomial: Fraction}; a monomial is a sorted tuple of (atom, exponent).
A rational function is a pair (num, den). Equality is cross-multiplication. No solver, no search.
`Normaliser` converts IR terms into this domain (value numbering with algebraic identities).
"""
from fractions import Fraction

from . import ir


class OutOfDomain(Exception):
    """The term leaves the rational-function domain (=> the rule cannot decide: exit 2)."""


def _mono_mul(a, b):
    d = dict(a)
    for atom, e in b:
        d[atom] = d.get(atom, 0) + e
    return tuple(sorted(((k, v) for k, v in d.items() if v != 0), key=lambda kv: kv[0]))


class Poly:
    __slots__ = ("t",)

    def __init__(self, terms=None):
        self.t = {m: c for m, c in (terms or {}).items() if c != 0}

    @staticmethod
    def const(c):
        return Poly({(): Fraction(c)})

    @staticmethod
    def atom(a):
        return Poly({((a, 1),): Fraction(1)})

    def __add__(self, o):
        d = dict(self.t)
        for m, c in o.t.items():
            d[m] = d.get(m, 0) + c
        return Poly(d)

    def __neg__(self):
        return Poly({m: -c for m, c in self.t.items()})

    def __sub__(self, o):
        return self + (-o)

    def __mul__(self, o):
        d = {}
        for m1, c1 in self.t.items():
            for m2, c2 in o.t.items():
                m = _mono_mul(m1, m2)
                d[m] = d.get(m, 0) + c1 * c2
        return Poly(d)

    def __eq__(self, o):
        return self.t == o.t

    def __hash__(self):
        return hash(tuple(sorted(self.t.items())))

    def is_zero(self):
        return not self.t

    def is_const(self):
        return all(m == () for m in self.t)

    def const_value(self):
        return self.t.get((), Fraction(0))

    def atoms(self):
        return {a for m in self.t for a, _ in m}

    def __repr__(self):
        if not self.t:
            return "0"
        out = []
        for m, c in sorted(self.t.items(), key=repr):
            mono = "*".join(f"{a}^{e}" if e != 1 else f"{a}" for a, e in m)
            out.append((f"{c}" if (c != 1 or not mono) else "") + (("*" if c != 1 else "") + mono if mono else ""))
        return " + ".join(out)


class Rat:
    """num/den with polynomial num, den (den never identically zero)."""
    __slots__ = ("n", "d")

    def __init__(self, n, d=None):
        self.n = n
        self.d = d if d is not None else Poly.const(1)

    @staticmethod
    def const(c):
        return Rat(Poly.const(c))

    @staticmethod
    def atom(a):
        return Rat(Poly.atom(a))

    def __add__(self, o):
        if self.d == o.d:
            return Rat(self.n + o.n, self.d)
        return Rat(self.n * o.d + o.n * self.d, self.d * o.d)

    def __sub__(self, o):
        if self.d == o.d:
            return Rat(self.n - o.n, self.d)
        return Rat(self.n * o.d - o.n * self.d, self.d * o.d)

    def __neg__(self):
        return Rat(-self.n, self.d)

    def __mul__(self, o):
        return Rat(self.n * o.n, self.d * o.d)

    def __truediv__(self, o):
        if o.n.is_zero():
            raise OutOfDomain("division by the zero polynomial")
        return Rat(self.n * o.d, self.d * o.n)

    def __pow__(self, k):
        if not isinstance(k, int):
            raise OutOfDomain("non-integer power")
        if k < 0:
            return Rat.const(1) / (self ** (-k))
        r = Rat.const(1)
        for _ in range(k):
            r = r * self
        return r

    def same(self, o):
        return (self.n * o.d - o.n * self.d).is_zero()

    def is_zero(self):
        return self.n.is_zero()

    def atoms(self):
        return self.n.atoms() | self.d.atoms()

    def const_value(self):
        """Fraction if the function is a constant, else None."""
        if self.n.is_zero():
            return Fraction(0)
        if self.n.is_const() and self.d.is_const():
            return self.n.const_value() / self.d.const_value()
        # try proportionality n = c*d
        for m, c in self.d.t.items():
            if m in self.n.t:
                ratio = self.n.t[m] / c
                if (self.n - Poly({(): ratio}) * self.d).is_zero():
                    return ratio
            break
        return None

    def __repr__(self):
        if self.d == Poly.const(1):
            return f"{self.n}"
        return f"({self.n}) / ({self.d})"


class Normaliser:
    """IR term -> Rat over named atoms. `atoms` pre-binds selected terms to short names.
    Function applications whose arguments are arithmetic are atoms keyed by (name, normalised
    arguments) with lookup by .same(), so exp(log(u)/k) built two ways is one atom.
    sqrt is handled by a radical normal form: every monomial carries at most one sqrt atom, and
    sqrt(a)*sqrt(b) = sqrt(a*b), sqrt(a)**2 = a (sound where the square roots are defined)."""

    IDENTITY_FNS = {"float"}

    def __init__(self, atoms=None, subst=None):
        self.names = dict(atoms or {})      # term -> atom name
        self.subst = dict(subst or {})      # term -> replacement term (applied first)
        self.fn_atoms = []                  # [(fname, [Rat args], atom name)]
        self.sqrt_atoms = []                # [(Rat radicand, atom name)]
        self.opaque = {}                    # term -> atom name (auto)

    # -- public ------------------------------------------------------------------------------
    def rat(self, t):
        return self._sqrt_normal(self._rat(t))

    def same(self, a, b):
        ra, rb = (a if isinstance(a, Rat) else self.rat(a)), (b if isinstance(b, Rat) else self.rat(b))
        return self._sqrt_normal(ra - rb).is_zero()

    def atom_name(self, t):
        if t in self.names:
            return self.names[t]
        if t not in self.opaque:
            self.opaque[t] = f"<{ir.show_nl(t)}>"
        return self.opaque[t]

    # -- conversion --------------------------------------------------------------------------
    def _rat(self, t):
        if t in self.subst:
            return self._rat(self.subst[t])
        if t in self.names:
            return Rat.atom(self.names[t])
        k = t[0]
        if k == "const":
            v = t[1]
            if isinstance(v, bool) or not isinstance(v, (int, float)):
                return Rat.atom(self.atom_name(t))
            if isinstance(v, float) and (v != v or v in (float("inf"), float("-inf"))):
                raise OutOfDomain("non-finite constant")
            return Rat.const(Fraction(v))
        if k == "neg":
            return -self._rat(t[1])
        if k == "op":
            o = t[1]
            if o == "+":
                return self._rat(t[2]) + self._rat(t[3])
            if o == "-":
                return self._rat(t[2]) - self._rat(t[3])
            if o == "*":
                return self._rat(t[2]) * self._rat(t[3])
            if o == "/":
                return self._rat(t[2]) / self._rat(t[3])
            if o == "**":
                e = self._rat(t[3]).const_value() if self._arith(t[3]) else None
                if e is not None and e.denominator == 1 and abs(e) <= 8:
                    return self._rat(t[2]) ** int(e)
                if e is not None and e.denominator == 2 and abs(e) <= 8:
                    base = self._rat(t[2])
                    s = self._sqrt(base)
                    n = int(e * 2)
                    return s ** n if n > 0 else Rat.const(1) / (s ** (-n))
                # general power: a ** e == exp(e * log(a)) (a > 0 wherever the repo uses it)
                return self._fn("exp", [self._rat(t[3]) * self._fn("log", [self._rat(t[2])])])
            return Rat.atom(self.atom_name(t))
        if k == "fn":
            name, args = t[1], t[2]
            pos = [a for a in args if not (isinstance(a, tuple) and a and a[0] == "kw")]
            if name in self.IDENTITY_FNS and len(pos) == 1 and len(args) == 1:
                return self._rat(pos[0])
            if name == "sqrt" and len(pos) == 1:
                return self._sqrt(self._rat(pos[0]))
            if name == "pow" and len(pos) == 2:
                return self._rat(("op", "**", pos[0], pos[1]))
            if name == "square" and len(pos) == 1:
                return self._rat(pos[0]) ** 2
            if name == "mean" and len(pos) == 1 and len(args) == 1:
                return self._fn("sum", [pos[0]]) / self._fn("len", [pos[0]])
            if name in ("exp", "log", "floor", "abs", "ceil", "log1p") and len(pos) == 1 and len(args) == 1:
                return self._fn(name, [self._rat(pos[0])])
            if name in ("sum", "len") and len(args) == 1:
                return self._fn(name, [pos[0]])
            return Rat.atom(self.atom_name(t))
        return Rat.atom(self.atom_name(t))

    def _arith(self, t):
        return t[0] in ("const", "op", "neg", "fn")

    def _fn(self, name, args):
        """Atom for a function application; args are Rats (compared with .same) or raw terms."""
        for fname, fargs, atom in self.fn_atoms:
            if fname == name and len(fargs) == len(args) and all(self._arg_same(x, y) for x, y in zip(fargs, args)):
                return Rat.atom(atom)
        atom = f"{name}#{len(self.fn_atoms)}(" + ", ".join(
            repr(a) if isinstance(a, Rat) else ir.show_nl(a) for a in args) + ")"
        self.fn_atoms.append((name, list(args), atom))
        return Rat.atom(atom)

    def _arg_same(self, x, y):
        if isinstance(x, Rat) and isinstance(y, Rat):
            return self._sqrt_normal(x - y).is_zero()
        if isinstance(x, Rat) or isinstance(y, Rat):
            return False
        return x == y

    def _sqrt(self, r):
        c = r.const_value()
        if c is not None and c >= 0:
            n, d = c.numerator, c.denominator
            rn, rd = int(round(n ** 0.5)), int(round(d ** 0.5))
            if rn * rn == n and rd * rd == d:
                return Rat.const(Fraction(rn, rd))
        for rad, atom in self.sqrt_atoms:
            if rad.same(r):
                return Rat.atom(atom)
        atom = f"sqrt#{len(self.sqrt_atoms)}({r!r})"
        self.sqrt_atoms.append((r, atom))
        return Rat.atom(atom)

    def _sqrt_normal(self, r):
        """Radical normal form of numerator and denominator (denominator rationalised when it is a
        single monomial; otherwise left as is)."""
        if not self.sqrt_atoms:
            return r
        n = self._sqrt_poly(r.n)
        d = self._sqrt_poly(r.d)
        res = n / d
        # n and d may again contain sqrt atoms; one more pass merges products created by division
        return Rat(self._merge(res.n), self._merge(res.d))

    def _sqrt_names(self):
        return {atom: rad for rad, atom in self.sqrt_atoms}

    def _sqrt_poly(self, p):
        """Poly -> Rat with even powers of sqrt atoms replaced by their radicands."""
        table = self._sqrt_names()
        out = Rat.const(0)
        for m, c in p.t.items():
            term = Rat.const(c)
            odd = []
            for a, e in m:
                if a in table:
                    term = term * (table[a] ** (e // 2))
                    if e % 2:
                        odd.append(table[a])
                else:
                    term = term * Rat(Poly({((a, e),): Fraction(1)}))
            if odd:
                prod = odd[0]
                for x in odd[1:]:
                    prod = prod * x
                term = term * self._sqrt(prod)
            out = out + term
        return out

    def _merge(self, p):
        table = self._sqrt_names()
        if not any(a in table for a in p.atoms()):
            return p
        r = self._sqrt_poly(p)
        if r.d == Poly.const(1):
            return r.n
        return p


def same(a, b, atoms=None, subst=None):
    """True iff terms a and b denote the same real function of their atoms."""
    return Normaliser(atoms, subst).same(a, b)


if __name__ == "__main__":
    n, m, q, v = (Rat.atom(x) for x in "nmqv")
    one = Rat.const(1)
    N1 = n + one
    d1 = v - m
    m1 = m + d1 / N1
    d2 = v - m1
    q1 = q + d1 * d2
    S, Q = n * m, q + n * m * m
    assert m1.same((S + v) / N1)
    assert q1.same((Q + v * v) - (S + v) * (S + v) / N1)
    assert not (q + d1 * d1).same((Q + v * v) - (S + v) * (S + v) / N1)
    # radicals: (1/sqrt(d)) * sqrt(x) * sqrt(a/(2-a)) == sqrt(x*a/((2-a)*d))
    P = lambda s: ("param", s)
    lhs = ("op", "*", ("op", "*", ("op", "/", ("const", 1), ("fn", "sqrt", (P("d"),))), ("fn", "sqrt", (P("x"),))),
           ("fn", "sqrt", (("op", "/", P("a"), ("op", "-", ("const", 2), P("a"))),)))
    rhs = ("fn", "sqrt", (("op", "/", ("op", "*", P("x"), P("a")),
                           ("op", "*", ("op", "-", ("const", 2), P("a")), P("d"))),))
    assert same(lhs, rhs)
    bad = ("fn", "sqrt", (("op", "/", ("op", "*", P("x"), P("a")),
                           ("op", "*", ("op", "+", ("const", 2), P("a")), P("d"))),))
    assert not same(lhs, bad)
    assert same(("op", "**", P("x"), ("const", 0.5)), ("fn", "sqrt", (P("x"),)))
    assert same(("fn", "exp", (("op", "/", ("fn", "log", (P("u"),)), P("k")),)),
                ("fn", "exp", (("op", "*", ("fn", "log", (P("u"),)), ("op", "/", ("const", 1), P("k"))),)))
    print("poly ok")
