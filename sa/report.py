"""Obligations, findings, known findings, evidence files (DESIGN.md section 2)."""
import json
import os
import time

VERIF = os.path.dirname(os.path.dirname(os.path.abspath(__file__)))
EVIDENCE_DIR = os.path.join(VERIF, "evidence")
KNOWN = os.path.join(VERIF, "known_findings.json")


class AnalysisError(Exception):
    """The analyser cannot decide (anchor vanished, construct outside the fragment, rule went
    vacuous): exit 2, never a VIOLATION."""


class Refuted(Exception):
    """Raised by a shared library function when what it looks at definitely breaks the clause it serves (not a
    "cannot decide"): the check that called it reports the finding under its own property and stops."""
    def __init__(self, rule, instance, where, func, construct, message):
        super().__init__(message)
        self.rule, self.instance, self.where, self.func, self.construct, self.message = \
            rule, instance, where, func, construct, message


class Finding:
    def __init__(self, pid, rule, instance, where, func, construct, message):
        self.pid, self.rule, self.instance = pid, rule, instance
        self.where, self.func, self.construct, self.message = where, func, construct, message

    def key(self):
        return {"property": self.pid, "rule": self.rule, "function": self.func, "construct": self.construct}

    def as_dict(self):
        d = self.key()
        d.update({"instance": self.instance, "where": self.where, "message": self.message})
        return d


def load_known():
    if not os.path.exists(KNOWN):
        return []
    with open(KNOWN, encoding="utf-8") as fh:
        return json.load(fh).get("findings", [])


class Run:
    """One evaluation of one property's rule set on one program."""

    def __init__(self, pid, prog, tier="quick", seed=0):
        self.pid, self.prog, self.tier, self.seed = pid, prog, tier, seed
        self.obligations = []
        self.findings = []
        self.notes = {}
        self.samples = []
        self.rule_instances = {}
        self.analysed = {"functions": set(), "paths": 0, "call_sites": 0}

    # -- recording -------------------------------------------------------------------------------
    def ok(self, rule, instance, detail=""):
        self.obligations.append({"rule": rule, "instance": instance, "status": "discharged", "detail": detail})
        self.rule_instances.setdefault(rule, set()).add(instance)
        if len(self.samples) < 12 and detail:
            self.samples.append({"rule": rule, "instance": instance, "discharged_by": detail[:400]})

    def fail(self, rule, instance, where, func, construct, message):
        self.obligations.append({"rule": rule, "instance": instance, "status": "violated", "detail": message})
        self.rule_instances.setdefault(rule, set()).add(instance)
        self.findings.append(Finding(self.pid, rule, instance, where, func, construct, message))

    def check(self, cond, rule, instance, where, func, construct, message, detail=""):
        if cond:
            self.ok(rule, instance, detail)
        else:
            self.fail(rule, instance, where, func, construct, message)
        return bool(cond)

    def need(self, cond, msg):
        if not cond:
            raise AnalysisError(msg)

    def analysed_fn(self, name):
        self.analysed["functions"].add(name)

    def where(self, summary_or_path, line):
        path = summary_or_path if isinstance(summary_or_path, str) else summary_or_path.path
        return f"{path}:{line}"

    def src(self, path, line):
        """Normalised source text of a line (for line-number independent construct keys)."""
        for m in self.prog.modules.values():
            if m.path == path:
                if 1 <= line <= len(m.lines):
                    return " ".join(m.lines[line - 1].split())
        return ""

    def stmt_text(self, path, line):
        """Normalised text of the innermost simple statement covering `line`."""
        import ast
        for m in self.prog.modules.values():
            if m.path == path:
                best = None
                for n in ast.walk(m.tree):
                    if isinstance(n, ast.stmt) and not isinstance(n, (ast.FunctionDef, ast.ClassDef, ast.If, ast.For,
                                                                      ast.Try, ast.With, ast.Module)):
                        if n.lineno <= line <= (n.end_lineno or n.lineno):
                            if best is None or (n.end_lineno - n.lineno) <= (best.end_lineno - best.lineno):
                                best = n
                if best is not None:
                    return " ".join(ast.unparse(best).split())
                return self.src(path, line)
        return ""


def split_known(findings, pid):
    """Partition findings into (new, known) using the committed known-findings file."""
    known = [k for k in load_known() if k.get("status") == "open" and k.get("property") == pid]
    new, old = [], []
    for f in findings:
        k = f.key()
        hit = next((e for e in known if all(e.get(x) == k[x] for x in ("rule", "function", "construct"))), None)
        (old if hit else new).append((f, hit))
    return [f for f, _ in new], old


def write_evidence(run, meta, wall, violations, extra=None):
    os.makedirs(EVIDENCE_DIR, exist_ok=True)
    obligations = len(run.obligations)
    discharged = sum(1 for o in run.obligations if o["status"] == "discharged")
    distinct = len({(o["rule"], o["instance"]) for o in run.obligations})
    by_rule = {}
    for o in run.obligations:
        by_rule.setdefault(o["rule"], [0, 0])
        by_rule[o["rule"]][0] += 1
        by_rule[o["rule"]][1] += o["status"] == "discharged"
    coverage = {
        "explanation": meta.get("explanation", ""),
        "obligations": obligations,
        "discharged": discharged,
        "evaluations": obligations,
        "distinct_nontrivial": distinct,
        "rule": "one obligation per (rule, instance) generated from the current source of /repo; an instance is "
                "non-trivial iff the rule matched at least one concrete construct (call site, path, term) and "
                "distinct iff its (rule, instance) key differs",
        "samples": run.samples[:12] or [{"note": "no obligation samples"}],
        "checker_cmd": meta.get("cmd", ""),
        "trusted_base": meta.get("trusted_base", []),
        "rules_applied": {r: {"obligations": a, "discharged": b} for r, (a, b) in sorted(by_rule.items())},
        "units_parsed": len(run.prog.modules),
        "functions_analysed": sorted(run.analysed["functions"]),
        "paths_enumerated": run.analysed["paths"],
        "call_sites_inspected": run.analysed["call_sites"],
        "findings": [f.as_dict() for f in run.findings],
        "exhaustive": True,
    }
    coverage.update(run.notes)
    if extra:
        coverage.update(extra)
    ev = {
        "property_id": run.pid,
        "tier": run.tier,
        "seed": int(run.seed),
        "level": "other",
        "coverage": coverage,
        "assumptions": meta.get("assumptions", []),
        "wall_s": round(wall, 3),
        "violations": violations,
    }
    path = os.path.join(EVIDENCE_DIR, f"{run.pid}.json")
    with open(path, "w", encoding="utf-8") as fh:
        json.dump(ev, fh, indent=1, default=str)
    return path


def write_replay(finding, n):
    d = os.path.join(EVIDENCE_DIR, "replay")
    os.makedirs(d, exist_ok=True)
    path = os.path.join(d, f"{finding.pid}-{n}.json")
    with open(path, "w", encoding="utf-8") as fh:
        json.dump(finding.as_dict(), fh, indent=1)
    return path


class Timer:
    def __init__(self):
        self.t0 = time.time()

    def elapsed(self):
        return time.time() - self.t0
