"""Syntax-level normalisation applied to every module before it is summarised.

Each rewrite replaces a library idiom by the comprehension / operator it abbreviates, so that the
value graph has one spelling for both.  Only rewrites whose two sides denote the same computation for
every operand are listed (same evaluation order of the operands, same laziness):

  map(f, it)              -> (f(_m) for _m in it)                f a name / attribute chain
  map(f, a, b)            -> (f(_m0, _m1) for _m0, _m1 in zip(a, b))
  pow(a, b)               -> a ** b
  dict(zip(K, V))         -> {_k: _v for _k, _v in zip(K, V)}
  filter(None, it)        -> (_m for _m in it if _m)
  itertools.starmap(f, it)-> (f(*_m) for _m in it)               f a name / attribute chain

`map`, `pow`, `dict`, `zip`, `filter` are only rewritten where the module does not rebind those names.
Positions are copied from the rewritten call, so reports keep pointing at the source line.
"""
import ast
import itertools


def _plain_callee(f):
    while isinstance(f, ast.Attribute):
        f = f.value
    return isinstance(f, ast.Name)


class _Desugar(ast.NodeTransformer):
    def __init__(self, rebound, dotted):
        self.rebound = rebound
        self.dotted = dotted          # local alias -> dotted import
        self.n = itertools.count()

    def _is_builtin(self, f, name):
        return isinstance(f, ast.Name) and f.id == name and name not in self.rebound

    def _is_ext(self, f, dotted):
        parts = []
        while isinstance(f, ast.Attribute):
            parts.append(f.attr)
            f = f.value
        if not isinstance(f, ast.Name) or f.id not in self.dotted:
            return False
        return ".".join([self.dotted[f.id]] + parts[::-1]) == dotted

    def _var(self, like, tag="m"):
        return f"_ds_{tag}{next(self.n)}"

    def visit_Call(self, node):
        self.generic_visit(node)
        f = node.func
        plain = not node.keywords and not any(isinstance(a, ast.Starred) for a in node.args)
        if plain and self._is_builtin(f, "map") and len(node.args) >= 2 and _plain_callee(node.args[0]):
            fn, its = node.args[0], node.args[1:]
            names = [self._var(node) for _ in its]
            if len(its) == 1:
                target, it = ast.Name(id=names[0], ctx=ast.Store()), its[0]
            else:
                target = ast.Tuple(elts=[ast.Name(id=n, ctx=ast.Store()) for n in names], ctx=ast.Store())
                it = ast.Call(func=ast.Name(id="zip", ctx=ast.Load()), args=list(its), keywords=[])
            elt = ast.Call(func=fn, args=[ast.Name(id=n, ctx=ast.Load()) for n in names], keywords=[])
            new = ast.GeneratorExp(elt=elt, generators=[ast.comprehension(target=target, iter=it, ifs=[], is_async=0)])
            return self._at(new, node)
        if plain and self._is_ext(f, "itertools.starmap") and len(node.args) == 2 and _plain_callee(node.args[0]):
            name = self._var(node)
            elt = ast.Call(func=node.args[0], args=[ast.Starred(value=ast.Name(id=name, ctx=ast.Load()), ctx=ast.Load())],
                           keywords=[])
            new = ast.GeneratorExp(elt=elt, generators=[ast.comprehension(
                target=ast.Name(id=name, ctx=ast.Store()), iter=node.args[1], ifs=[], is_async=0)])
            return self._at(new, node)
        if plain and self._is_builtin(f, "filter") and len(node.args) == 2 and \
                isinstance(node.args[0], ast.Constant) and node.args[0].value is None:
            name = self._var(node)
            new = ast.GeneratorExp(elt=ast.Name(id=name, ctx=ast.Load()), generators=[ast.comprehension(
                target=ast.Name(id=name, ctx=ast.Store()), iter=node.args[1],
                ifs=[ast.Name(id=name, ctx=ast.Load())], is_async=0)])
            return self._at(new, node)
        if plain and self._is_builtin(f, "pow") and len(node.args) == 2:
            return self._at(ast.BinOp(left=node.args[0], op=ast.Pow(), right=node.args[1]), node)
        if plain and self._is_builtin(f, "dict") and len(node.args) == 1 and isinstance(node.args[0], ast.Call) and \
                self._is_builtin(node.args[0].func, "zip") and len(node.args[0].args) == 2 and \
                not node.args[0].keywords and not any(isinstance(a, ast.Starred) for a in node.args[0].args):
            k, v = self._var(node, "k"), self._var(node, "v")
            new = ast.DictComp(key=ast.Name(id=k, ctx=ast.Load()), value=ast.Name(id=v, ctx=ast.Load()),
                               generators=[ast.comprehension(
                                   target=ast.Tuple(elts=[ast.Name(id=k, ctx=ast.Store()), ast.Name(id=v, ctx=ast.Store())],
                                                    ctx=ast.Store()),
                                   iter=node.args[0], ifs=[], is_async=0)])
            return self._at(new, node)
        return node

    @staticmethod
    def _at(new, old):
        ast.copy_location(new, old)
        for n in ast.walk(new):
            if not hasattr(n, "lineno") and isinstance(n, (ast.expr, ast.stmt)):
                ast.copy_location(n, old)
        ast.fix_missing_locations(new)
        return new


def desugar(tree):
    rebound = set()
    dotted = {}
    for n in ast.walk(tree):
        if isinstance(n, (ast.FunctionDef, ast.ClassDef, ast.AsyncFunctionDef)):
            rebound.add(n.name)
            if not isinstance(n, ast.ClassDef):
                for a in n.args.args + n.args.kwonlyargs + n.args.posonlyargs:
                    rebound.add(a.arg)
        elif isinstance(n, ast.Name) and isinstance(n.ctx, (ast.Store, ast.Del)):
            rebound.add(n.id)
        elif isinstance(n, ast.Import):
            for a in n.names:
                dotted[a.asname or a.name.split(".")[0]] = a.name if a.asname else a.name.split(".")[0]
                rebound.add(a.asname or a.name.split(".")[0])
        elif isinstance(n, ast.ImportFrom) and not n.level:
            for a in n.names:
                dotted[a.asname or a.name] = f"{n.module}.{a.name}"
                rebound.add(a.asname or a.name)
    return _Desugar(rebound, dotted).visit(tree)
