"""Syntax-level normalisation applied to every module before it is summarised.

Each rewrite replaces a library idiom by the comprehension / operator it abbreviates, so that the
value graph has one spelling for both.  Only rewrites whose two sides denote the same computation for
every operand are listed (same evaluation order of the operands, same laziness):

  map(f, it)              -> (f(_m) for _m in it)                f a name / attribute chain
  map(f, a, b)            -> (f(_m0, _m1) for _m0, _m1 in zip(a, b))
  pow(a, b)               -> a ** b
  dict(zip(K, V))         -> {_k: _v for _k, _v in zip(K, V)}
  filter(None, it)        -> (_m for _m in it if _m)
  itertools.starmap(f, it)-> (f(*_m) for _m in it)               f a name / attribute chain

`map`, `pow`, `dict`, `zip`, `filter` are only rewritten where the module does not rebind those names.
Positions are copied from the rewritten call, so reports keep pointing at the source line.

Statement forms that the summariser does not model directly are expressed by the ones it does:

  try: B finally: F           -> try: B except BaseException: F; raise   followed by F
                                 (a `return v` inside B becomes `t = v; F; return t`)
  for/while ... else: E       -> the loop, then E (guarded by a flag that the loop's `break`s set)
  match s: case P: B ...      -> t = s; if <test of P on t>: B elif ...      for value / singleton / or / class /
                                 capture / wildcard patterns (other patterns are left alone)
"""
import ast
import itertools


def _plain_callee(f):
    while isinstance(f, ast.Attribute):
        f = f.value
    return isinstance(f, ast.Name)


class _Desugar(ast.NodeTransformer):
    def __init__(self, rebound, dotted):
        self.rebound = rebound
        self.dotted = dotted          # local alias -> dotted import
        self.n = itertools.count()

    def _is_builtin(self, f, name):
        return isinstance(f, ast.Name) and f.id == name and name not in self.rebound

    def _is_ext(self, f, dotted):
        parts = []
        while isinstance(f, ast.Attribute):
            parts.append(f.attr)
            f = f.value
        if not isinstance(f, ast.Name) or f.id not in self.dotted:
            return False
        return ".".join([self.dotted[f.id]] + parts[::-1]) == dotted

    def _var(self, like, tag="m"):
        return f"_ds_{tag}{next(self.n)}"

    def visit_With(self, node):
        """`with contextlib.suppress(E, ...): body` is `try: body` / `except (E, ...): pass`."""
        self.generic_visit(node)
        if len(node.items) == 1 and node.items[0].optional_vars is None and isinstance(node.items[0].context_expr, ast.Call):
            c = node.items[0].context_expr
            if (self._is_ext(c.func, "contextlib.suppress")) and c.args and not c.keywords and \
                    not any(isinstance(a, ast.Starred) for a in c.args):
                typ = c.args[0] if len(c.args) == 1 else ast.Tuple(elts=list(c.args), ctx=ast.Load())
                handler = ast.ExceptHandler(type=typ, name=None, body=[ast.copy_location(ast.Pass(), node)])
                new = ast.Try(body=node.body, handlers=[ast.copy_location(handler, node)], orelse=[], finalbody=[])
                return self._at(new, node)
        return node

    def visit_Call(self, node):
        self.generic_visit(node)
        f = node.func
        plain = not node.keywords and not any(isinstance(a, ast.Starred) for a in node.args)
        if plain and self._is_builtin(f, "map") and len(node.args) >= 2 and _plain_callee(node.args[0]):
            fn, its = node.args[0], node.args[1:]
            names = [self._var(node) for _ in its]
            if len(its) == 1:
                target, it = ast.Name(id=names[0], ctx=ast.Store()), its[0]
            else:
                target = ast.Tuple(elts=[ast.Name(id=n, ctx=ast.Store()) for n in names], ctx=ast.Store())
                it = ast.Call(func=ast.Name(id="zip", ctx=ast.Load()), args=list(its), keywords=[])
            elt = ast.Call(func=fn, args=[ast.Name(id=n, ctx=ast.Load()) for n in names], keywords=[])
            new = ast.GeneratorExp(elt=elt, generators=[ast.comprehension(target=target, iter=it, ifs=[], is_async=0)])
            return self._at(new, node)
        if plain and self._is_ext(f, "itertools.starmap") and len(node.args) == 2 and _plain_callee(node.args[0]):
            name = self._var(node)
            elt = ast.Call(func=node.args[0], args=[ast.Starred(value=ast.Name(id=name, ctx=ast.Load()), ctx=ast.Load())],
                           keywords=[])
            new = ast.GeneratorExp(elt=elt, generators=[ast.comprehension(
                target=ast.Name(id=name, ctx=ast.Store()), iter=node.args[1], ifs=[], is_async=0)])
            return self._at(new, node)
        if plain and self._is_builtin(f, "filter") and len(node.args) == 2 and \
                isinstance(node.args[0], ast.Constant) and node.args[0].value is None:
            name = self._var(node)
            new = ast.GeneratorExp(elt=ast.Name(id=name, ctx=ast.Load()), generators=[ast.comprehension(
                target=ast.Name(id=name, ctx=ast.Store()), iter=node.args[1],
                ifs=[ast.Name(id=name, ctx=ast.Load())], is_async=0)])
            return self._at(new, node)
        if plain and self._is_builtin(f, "pow") and len(node.args) == 2:
            return self._at(ast.BinOp(left=node.args[0], op=ast.Pow(), right=node.args[1]), node)
        if plain and self._is_builtin(f, "dict") and len(node.args) == 1 and isinstance(node.args[0], ast.Call) and \
                self._is_builtin(node.args[0].func, "zip") and len(node.args[0].args) == 2 and \
                not node.args[0].keywords and not any(isinstance(a, ast.Starred) for a in node.args[0].args):
            k, v = self._var(node, "k"), self._var(node, "v")
            new = ast.DictComp(key=ast.Name(id=k, ctx=ast.Load()), value=ast.Name(id=v, ctx=ast.Load()),
                               generators=[ast.comprehension(
                                   target=ast.Tuple(elts=[ast.Name(id=k, ctx=ast.Store()), ast.Name(id=v, ctx=ast.Store())],
                                                    ctx=ast.Store()),
                                   iter=node.args[0], ifs=[], is_async=0)])
            return self._at(new, node)
        return node

    @staticmethod
    def _at(new, old):
        ast.copy_location(new, old)
        for n in ast.walk(new):
            if not hasattr(n, "lineno") and isinstance(n, (ast.expr, ast.stmt)):
                ast.copy_location(n, old)
        ast.fix_missing_locations(new)
        return new


class _Scoped(ast.NodeTransformer):
    """Statement rewrites; nested function / class bodies are rewritten on their own."""

    def __init__(self):
        self.n = itertools.count()

    def fresh(self, tag):
        return f"_ds_{tag}{next(self.n)}"

    # ---- helpers -------------------------------------------------------------------------------
    @staticmethod
    def _own_nodes(stmts, stop_at_loops=False):
        """Nodes of the statements, not entering nested definitions (and, optionally, nested loops)."""
        todo = list(stmts)
        while todo:
            n = todo.pop()
            yield n
            for c in ast.iter_child_nodes(n):
                if isinstance(c, (ast.FunctionDef, ast.AsyncFunctionDef, ast.Lambda, ast.ClassDef)):
                    continue
                if stop_at_loops and isinstance(c, (ast.For, ast.While, ast.AsyncFor)):
                    continue
                todo.append(c)

    @staticmethod
    def _assign(name, value, like):
        st = ast.Assign(targets=[ast.Name(id=name, ctx=ast.Store())], value=value, type_comment=None)
        ast.copy_location(st, like)
        ast.fix_missing_locations(st)
        return st

    def _fix(self, new, like):
        ast.copy_location(new, like)
        ast.fix_missing_locations(new)
        return new

    # ---- try / finally -------------------------------------------------------------------------
    def visit_Try(self, node):
        self.generic_visit(node)
        if not node.finalbody:
            return node
        import copy
        fin = node.finalbody
        inner_stmts = [node] if (node.handlers or node.orelse) else None
        body = node.body
        if inner_stmts is not None:
            inner = ast.Try(body=node.body, handlers=node.handlers, orelse=node.orelse, finalbody=[])
            body = [self._fix(inner, node)]
        # jumps that leave the protected region run the finally block first
        if any(isinstance(n, (ast.Break, ast.Continue)) for n in self._own_nodes(body, stop_at_loops=True)):
            return node                 # left to the summariser (reported as unsupported)
        outer = self

        class Ret(ast.NodeTransformer):
            def visit_FunctionDef(self, n):
                return n
            visit_AsyncFunctionDef = visit_Lambda = visit_ClassDef = visit_FunctionDef

            def visit_Return(self, n):
                tmp = outer.fresh("r")
                val = n.value if n.value is not None else ast.Constant(value=None)
                new_ret = ast.Return(value=ast.Name(id=tmp, ctx=ast.Load()))
                outer._fix(new_ret, n)
                return [outer._assign(tmp, val, n)] + [copy.deepcopy(s) for s in fin] + [new_ret]
        body = [Ret().visit(b) for b in body]
        flat = []
        for b in body:
            flat.extend(b if isinstance(b, list) else [b])
        handler = ast.ExceptHandler(type=ast.Name(id="BaseException", ctx=ast.Load()), name=None,
                                    body=[copy.deepcopy(s) for s in fin] + [ast.Raise(exc=None, cause=None)])
        guarded = ast.Try(body=flat, handlers=[handler], orelse=[], finalbody=[])
        self._fix(guarded, node)
        return [guarded] + list(fin)

    # ---- loop else -----------------------------------------------------------------------------
    def _loop_else(self, node):
        self.generic_visit(node)
        if not node.orelse:
            return node
        orelse, node.orelse = node.orelse, []
        breaks = [n for n in self._own_nodes(node.body, stop_at_loops=True) if isinstance(n, ast.Break)]
        if not breaks:
            return [node] + orelse
        flag = self.fresh("b")
        outer = self

        class Brk(ast.NodeTransformer):
            def visit_FunctionDef(self, n):
                return n
            visit_AsyncFunctionDef = visit_Lambda = visit_ClassDef = visit_For = visit_While = visit_FunctionDef

            def visit_Break(self, n):
                return [outer._assign(flag, ast.Constant(value=True), n), n]
        node.body = [x for b in node.body for x in (lambda r: r if isinstance(r, list) else [r])(Brk().visit(b))]
        test = ast.UnaryOp(op=ast.Not(), operand=ast.Name(id=flag, ctx=ast.Load()))
        tail = ast.If(test=test, body=orelse, orelse=[])
        self._fix(tail, orelse[0])
        return [self._assign(flag, ast.Constant(value=False), node), node, tail]

    visit_For = _loop_else
    visit_While = _loop_else

    # ---- match ---------------------------------------------------------------------------------
    def _pattern(self, p, subj):
        """(test expression or None for 'always', [binding statements]) or None if the pattern is not covered."""
        load = lambda: ast.Name(id=subj, ctx=ast.Load())
        if isinstance(p, ast.MatchValue):
            return ast.Compare(left=load(), ops=[ast.Eq()], comparators=[p.value]), []
        if isinstance(p, ast.MatchSingleton):
            return ast.Compare(left=load(), ops=[ast.Is()], comparators=[ast.Constant(value=p.value)]), []
        if isinstance(p, ast.MatchAs):
            if p.pattern is None:
                binds = [ast.Assign(targets=[ast.Name(id=p.name, ctx=ast.Store())], value=load(), type_comment=None)] \
                    if p.name else []
                return None, binds
            sub = self._pattern(p.pattern, subj)
            if sub is None:
                return None
            test, binds = sub
            if p.name:
                binds = binds + [ast.Assign(targets=[ast.Name(id=p.name, ctx=ast.Store())], value=load(), type_comment=None)]
            return test, binds
        if isinstance(p, ast.MatchOr):
            tests = []
            for alt in p.patterns:
                sub = self._pattern(alt, subj)
                if sub is None or sub[1]:
                    return None
                if sub[0] is None:
                    return None, []
                tests.append(sub[0])
            return ast.BoolOp(op=ast.Or(), values=tests), []
        if isinstance(p, ast.MatchClass) and not p.patterns and not p.kwd_patterns:
            return ast.Call(func=ast.Name(id="isinstance", ctx=ast.Load()), args=[load(), p.cls], keywords=[]), []
        if isinstance(p, ast.MatchClass) and not p.patterns:
            # Class(attr=name, other=VALUE): an instance whose attributes are captured / compared
            tests = [ast.Call(func=ast.Name(id="isinstance", ctx=ast.Load()), args=[load(), p.cls], keywords=[])]
            binds = []
            for attr, pat in zip(p.kwd_attrs, p.kwd_patterns):
                part = ast.Attribute(value=load(), attr=attr, ctx=ast.Load())
                if isinstance(pat, ast.MatchAs) and pat.pattern is None:
                    if pat.name:
                        binds.append(ast.Assign(targets=[ast.Name(id=pat.name, ctx=ast.Store())], value=part, type_comment=None))
                elif isinstance(pat, ast.MatchValue):
                    tests.append(ast.Compare(left=part, ops=[ast.Eq()], comparators=[pat.value]))
                elif isinstance(pat, ast.MatchSingleton):
                    tests.append(ast.Compare(left=part, ops=[ast.Is()], comparators=[ast.Constant(value=pat.value)]))
                else:
                    return None
            return (tests[0] if len(tests) == 1 else ast.BoolOp(op=ast.And(), values=tests)), binds
        return None

    def visit_Match(self, node):
        self.generic_visit(node)
        subj = self.fresh("m")
        arms = []
        for case in node.cases:
            got = self._pattern(case.pattern, subj)
            if got is None:
                return node
            test, binds = got
            if case.guard is not None and binds and test is not None:
                return node         # bindings of a refutable pattern are only made when it matches
            arms.append((test, binds, case.guard, case.body))
        out = []
        for test, binds, guard, body in reversed(arms):
            for b in binds:
                self._fix(b, body[0])
            if test is None:
                # irrefutable (capture / wildcard): the name is bound, then the guard decides
                if guard is None:
                    out = binds + body
                else:
                    out = binds + [self._fix(ast.If(test=guard, body=body, orelse=out), body[0])]
            else:
                cond = test if guard is None else ast.BoolOp(op=ast.And(), values=[test, guard])
                out = [self._fix(ast.If(test=cond, body=binds + body, orelse=out), body[0])]
        return [self._assign(subj, node.subject, node)] + out


class _Blocks(ast.NodeTransformer):
    """Rewrites that need the neighbouring statements of a block."""

    def __init__(self):
        self.n = itertools.count()
        self.fn_stack = []

    def visit_FunctionDef(self, node):
        self.fn_stack.append(node)
        self.generic_visit(node)
        self.fn_stack.pop()
        return node

    def generic_visit(self, node):
        super().generic_visit(node)
        for name in ("body", "orelse", "finalbody"):
            stmts = getattr(node, name, None)
            if isinstance(stmts, list) and stmts and isinstance(stmts[0], ast.stmt):
                setattr(node, name, self.block(stmts))
        return node

    # ---- helpers -------------------------------------------------------------------------------
    @staticmethod
    def _names(node, ctx=None):
        return [n for n in ast.walk(node) if isinstance(n, ast.Name) and (ctx is None or isinstance(n.ctx, ctx))]

    def _uses(self, name, where):
        return sum(1 for w in where for n in self._names(w) if n.id == name)

    def block(self, stmts):
        out = []
        i = 0
        while i < len(stmts):
            st = stmts[i]
            new = None
            if isinstance(st, ast.While):
                new = self._iterator_while(out, st) or self._indexed_while(out, st)
            elif isinstance(st, (ast.Assign, ast.Return)) and isinstance(st.value, ast.Call):
                new = self._reduce(st)
            elif isinstance(st, ast.For):
                new = self._range_len_for(st)
            if new is not None:
                out.extend(new)
            else:
                out.append(st)
            i += 1
        return out

    # it = iter(X); while (v := next(it, S)) is not S: body      ->      for v in X: body
    def _iterator_while(self, before, st):
        t = st.test
        if not (isinstance(t, ast.Compare) and len(t.ops) == 1 and isinstance(t.ops[0], ast.IsNot) and
                isinstance(t.left, ast.NamedExpr) and isinstance(t.left.value, ast.Call) and
                isinstance(t.left.value.func, ast.Name) and t.left.value.func.id == "next" and
                len(t.left.value.args) == 2 and isinstance(t.left.value.args[0], ast.Name) and
                ast.dump(t.left.value.args[1]) == ast.dump(t.comparators[0]) and
                isinstance(t.comparators[0], (ast.Name, ast.Attribute, ast.Constant)) and not st.orelse):
            return None
        it = t.left.value.args[0].id
        if not before or not (isinstance(before[-1], ast.Assign) and len(before[-1].targets) == 1 and
                              isinstance(before[-1].targets[0], ast.Name) and before[-1].targets[0].id == it and
                              isinstance(before[-1].value, ast.Call) and isinstance(before[-1].value.func, ast.Name) and
                              before[-1].value.func.id == "iter" and len(before[-1].value.args) == 1):
            return None
        fn = self.fn_stack[-1] if self.fn_stack else None
        if fn is None or self._uses(it, [fn]) != 2:          # the iterator is used nowhere else
            return None
        source = before.pop().value.args[0]
        loop = ast.For(target=ast.Name(id=t.left.target.id, ctx=ast.Store()), iter=source, body=st.body, orelse=[],
                       type_comment=None)
        ast.copy_location(loop, st)
        ast.fix_missing_locations(loop)
        return [loop]

    # i = 0; while i < len(S): ... S[i] ...; i += 1      ->      i = 0; for e in S: ... e ...; i += 1
    @staticmethod
    def _binding(before, name):
        """(statement, value expression) of the last assignment to `name` in the preceding statements."""
        for st in reversed(before):
            if isinstance(st, ast.Assign) and len(st.targets) == 1:
                t = st.targets[0]
                if isinstance(t, ast.Name) and t.id == name:
                    return st, st.value
                if isinstance(t, ast.Tuple) and isinstance(st.value, ast.Tuple) and len(t.elts) == len(st.value.elts):
                    for el, v in zip(t.elts, st.value.elts):
                        if isinstance(el, ast.Name) and el.id == name:
                            return st, v
            if any(isinstance(n, ast.Name) and n.id == name and isinstance(n.ctx, (ast.Store, ast.Del)) for n in ast.walk(st)):
                return None
        return None

    def _indexed_while(self, before, st):
        t = st.test
        if not (isinstance(t, ast.Compare) and len(t.ops) == 1 and not st.orelse and st.body):
            return None
        a, op, b = t.left, t.ops[0], t.comparators[0]
        if isinstance(op, ast.Gt):
            a, b, op = b, a, ast.Lt()
        if not (isinstance(op, (ast.Lt, ast.NotEq)) and isinstance(a, ast.Name)):
            return None
        idx = a.id
        bound_name = None
        if isinstance(b, ast.Name):
            got = self._binding(before, b.id)
            if got is None:
                return None
            bound_name, b = b.id, got[1]
        if not (isinstance(b, ast.Call) and isinstance(b.func, ast.Name) and b.func.id == "len" and len(b.args) == 1 and
                isinstance(b.args[0], ast.Name) and not b.keywords):
            return None
        seq = b.args[0].id
        got = self._binding(before, idx)
        if got is None or not (isinstance(got[1], ast.Constant) and got[1].value == 0 and type(got[1].value) is int):
            return None
        incs = [k for k, x in enumerate(st.body)
                if isinstance(x, ast.AugAssign) and isinstance(x.op, ast.Add) and isinstance(x.target, ast.Name) and
                x.target.id == idx and isinstance(x.value, ast.Constant) and x.value.value == 1 and type(x.value.value) is int]
        if len(incs) != 1:
            return None
        j = incs[0]
        # the index, the bound and the sequence are not rebound, the sequence is not resized, no jump skips the
        # increment, and the index is not read after the increment
        for k, stmt in enumerate(st.body):
            if k == j:
                continue
            for n in ast.walk(stmt):
                if isinstance(n, ast.Name) and n.id in (idx, seq, bound_name) and isinstance(n.ctx, (ast.Store, ast.Del)):
                    return None
                if isinstance(n, ast.Name) and n.id == idx and k > j:
                    return None
                if isinstance(n, ast.Continue) and k < j:
                    return None
                if isinstance(n, ast.Attribute) and isinstance(n.value, ast.Name) and n.value.id == seq and \
                        n.attr in ("append", "extend", "insert", "pop", "remove", "clear", "sort", "reverse"):
                    return None
                if isinstance(n, ast.Subscript) and isinstance(n.ctx, (ast.Store, ast.Del)) and \
                        isinstance(n.value, ast.Name) and n.value.id == seq:
                    return None
                if isinstance(n, (ast.FunctionDef, ast.Lambda)):
                    return None
        elem = f"_ds_e{next(self.n)}"
        used = [0]

        class Sub(ast.NodeTransformer):
            def visit_Subscript(self, n):
                self.generic_visit(n)
                if isinstance(n.value, ast.Name) and n.value.id == seq and isinstance(n.slice, ast.Name) and \
                        n.slice.id == idx and isinstance(n.ctx, ast.Load):
                    used[0] += 1
                    return ast.copy_location(ast.Name(id=elem, ctx=ast.Load()), n)
                return n
        body = [Sub().visit(x) if k != j else x for k, x in enumerate(st.body)]
        if not used[0]:
            return None
        loop = ast.For(target=ast.Name(id=elem, ctx=ast.Store()), iter=ast.Name(id=seq, ctx=ast.Load()), body=body,
                       orelse=[], type_comment=None)
        ast.copy_location(loop, st)
        ast.fix_missing_locations(loop)
        return [loop]

    # for i in range(a, len(S) + a): ... S[i - a] ...      ->      for i, e in enumerate(S, a): ... e ...
    def _range_len_for(self, st):
        it = st.iter
        if not (isinstance(st.target, ast.Name) and isinstance(it, ast.Call) and isinstance(it.func, ast.Name) and
                it.func.id == "range" and not it.keywords and 1 <= len(it.args) <= 2 and not st.orelse):
            return None
        idx = st.target.id

        def int_const(n):
            return n.value if isinstance(n, ast.Constant) and type(n.value) is int else None

        def length(n):
            if isinstance(n, ast.Call) and isinstance(n.func, ast.Name) and n.func.id == "len" and len(n.args) == 1 and \
                    isinstance(n.args[0], ast.Name) and not n.keywords:
                return n.args[0].id
            return None
        if len(it.args) == 1:
            start, seq = 0, length(it.args[0])
        else:
            start, hi = int_const(it.args[0]), it.args[1]
            if start is None:
                return None
            if start == 0:
                seq = length(hi)
            elif isinstance(hi, ast.BinOp) and isinstance(hi.op, ast.Add) and int_const(hi.right) == start:
                seq = length(hi.left)
            elif isinstance(hi, ast.BinOp) and isinstance(hi.op, ast.Add) and int_const(hi.left) == start:
                seq = length(hi.right)
            else:
                seq = None
        if seq is None or seq == idx:
            return None
        for stmt in st.body:
            for n in ast.walk(stmt):
                if isinstance(n, ast.Name) and n.id in (idx, seq) and isinstance(n.ctx, (ast.Store, ast.Del)):
                    return None
                if isinstance(n, ast.Attribute) and isinstance(n.value, ast.Name) and n.value.id == seq and \
                        n.attr in ("append", "extend", "insert", "pop", "remove", "clear", "sort", "reverse"):
                    return None
                if isinstance(n, ast.Subscript) and isinstance(n.ctx, (ast.Store, ast.Del)) and \
                        isinstance(n.value, ast.Name) and n.value.id == seq:
                    return None
                if isinstance(n, (ast.FunctionDef, ast.Lambda)):
                    return None
        elem = f"_ds_e{next(self.n)}"
        used = [0]

        def is_pos(n):
            if start == 0:
                return isinstance(n, ast.Name) and n.id == idx
            return isinstance(n, ast.BinOp) and isinstance(n.op, ast.Sub) and isinstance(n.left, ast.Name) and \
                n.left.id == idx and int_const(n.right) == start

        class Sub(ast.NodeTransformer):
            def visit_Subscript(self, n):
                self.generic_visit(n)
                if isinstance(n.value, ast.Name) and n.value.id == seq and is_pos(n.slice) and isinstance(n.ctx, ast.Load):
                    used[0] += 1
                    return ast.copy_location(ast.Name(id=elem, ctx=ast.Load()), n)
                return n
        body = [Sub().visit(x) for x in st.body]
        if not used[0]:
            return None
        if not any(isinstance(n, ast.Name) and n.id == idx for x in body for n in ast.walk(x)):
            loop = ast.For(target=ast.Name(id=elem, ctx=ast.Store()), iter=ast.Name(id=seq, ctx=ast.Load()), body=body,
                           orelse=[], type_comment=None)       # the index only selected the element
            ast.copy_location(loop, st)
            ast.fix_missing_locations(loop)
            return [loop]
        args = [ast.Name(id=seq, ctx=ast.Load())] + ([ast.Constant(value=start)] if start else [])
        loop = ast.For(target=ast.Tuple(elts=[ast.Name(id=idx, ctx=ast.Store()), ast.Name(id=elem, ctx=ast.Store())], ctx=ast.Store()),
                       iter=ast.Call(func=ast.Name(id="enumerate", ctx=ast.Load()), args=args, keywords=[]),
                       body=body, orelse=[], type_comment=None)
        ast.copy_location(loop, st)
        ast.fix_missing_locations(loop)
        return [loop]

    # y = functools.reduce(f, xs, init)      ->      y = init; for x in xs: y = f(y, x)
    def _reduce(self, st):
        c = st.value
        f = c.func
        name = f.id if isinstance(f, ast.Name) else (f.attr if isinstance(f, ast.Attribute) and
                                                     isinstance(f.value, ast.Name) and f.value.id == "functools" else None)
        if name != "reduce" or len(c.args) != 3 or c.keywords or not isinstance(c.args[0], (ast.Name, ast.Attribute)):
            return None
        simple = isinstance(st, ast.Assign) and len(st.targets) == 1 and isinstance(st.targets[0], ast.Name)
        acc = st.targets[0].id if simple else f"_ds_acc{next(self.n)}"
        x = f"_ds_x{next(self.n)}"
        init = ast.Assign(targets=[ast.Name(id=acc, ctx=ast.Store())], value=c.args[2], type_comment=None)
        step = ast.Assign(targets=[ast.Name(id=acc, ctx=ast.Store())],
                          value=ast.Call(func=c.args[0], args=[ast.Name(id=acc, ctx=ast.Load()), ast.Name(id=x, ctx=ast.Load())],
                                         keywords=[]), type_comment=None)
        loop = ast.For(target=ast.Name(id=x, ctx=ast.Store()), iter=c.args[1], body=[step], orelse=[], type_comment=None)
        out = [init, loop]
        if isinstance(st, ast.Return):
            out.append(ast.Return(value=ast.Name(id=acc, ctx=ast.Load())))
        elif not simple:
            out.append(ast.Assign(targets=st.targets, value=ast.Name(id=acc, ctx=ast.Load()), type_comment=None))
        for o in out:
            ast.copy_location(o, st)
            ast.fix_missing_locations(o)
        return out


_UNRELATED_BUILTINS = {"dict", "list", "tuple", "str", "bytes", "set", "frozenset", "float", "complex", "type(None)"}


def _single_dispatch(body, is_class):
    """functools.singledispatch / singledispatchmethod with explicit registrations in the same scope:

        @singledispatch            def f(x, ...):
        def f(x, ...): D               if isinstance(x, T): return f__impl0(x, ...)
        @f.register(T)        ->       return f__default(x, ...)
        def _(x, ...): B           def f__default(x, ...): D
                                   def f__impl0(x, ...): B

    Dispatch is on the class of the first argument; with more than one registration the registered classes must be
    builtins that are not subclasses of one another (otherwise the most specific one would have to be found)."""
    def deco_name(d):
        return ast.unparse(d.func if isinstance(d, ast.Call) else d)
    generic = {}
    for st in body:
        if isinstance(st, ast.FunctionDef):
            for d in st.decorator_list:
                if not isinstance(d, ast.Call) and deco_name(d) in ("functools.singledispatch", "singledispatch",
                                                                    "functools.singledispatchmethod", "singledispatchmethod"):
                    generic[st.name] = (st, deco_name(d).endswith("method"))
    if not generic:
        return body
    impls = {n: [] for n in generic}
    for st in body:
        if isinstance(st, ast.FunctionDef):
            for d in st.decorator_list:
                if isinstance(d, ast.Call) and isinstance(d.func, ast.Attribute) and d.func.attr == "register" and \
                        isinstance(d.func.value, ast.Name) and d.func.value.id in generic and len(d.args) == 1 and not d.keywords:
                    impls[d.func.value.id].append((st, d, d.args[0]))
                elif isinstance(d, ast.Attribute) and d.attr == "register" and isinstance(d.value, ast.Name) and d.value.id in generic:
                    impls[d.value.id].append((st, d, None))         # registration by annotation: not followed
    out = list(body)
    for name, (fn, method) in generic.items():
        regs = impls[name]
        if not regs or any(t is None for _, _, t in regs) or any(len(st.decorator_list) != 1 for st, _, _ in regs) or \
                len(fn.decorator_list) != 1 or fn.args.vararg or fn.args.kwarg or fn.args.kwonlyargs:
            continue
        if len(regs) > 1 and not all(ast.unparse(t) in _UNRELATED_BUILTINS for _, _, t in regs):
            continue
        if method != is_class:
            continue
        params = [a.arg for a in fn.args.args]
        first = 1 if is_class else 0
        if len(params) <= first:
            continue
        # uses of the registered functions' own names elsewhere would break when they are renamed
        used = {n.id for st in body for n in ast.walk(st) if isinstance(n, ast.Name)} | \
               {n.attr for st in body for n in ast.walk(st) if isinstance(n, ast.Attribute)}
        if any(st.name != "_" and st.name in used for st, _, _ in regs):
            continue

        def call(target):
            if is_class:
                f = ast.Attribute(value=ast.Name(id=params[0], ctx=ast.Load()), attr=target, ctx=ast.Load())
                args = [ast.Name(id=p, ctx=ast.Load()) for p in params[1:]]
            else:
                f = ast.Name(id=target, ctx=ast.Load())
                args = [ast.Name(id=p, ctx=ast.Load()) for p in params]
            return ast.Return(value=ast.Call(func=f, args=args, keywords=[]))
        stmts = []
        for i, (st, d, t) in enumerate(regs):
            test = ast.Call(func=ast.Name(id="isinstance", ctx=ast.Load()),
                            args=[ast.Name(id=params[first], ctx=ast.Load()), t], keywords=[])
            stmts.append(ast.If(test=test, body=[call(f"{name}__impl{i}")], orelse=[]))
        stmts.append(call(f"{name}__default"))
        import copy as _copy
        default = _copy.copy(fn)
        default.name, default.decorator_list = f"{name}__default", []
        if not [x for x in default.body if not (isinstance(x, ast.Expr) and isinstance(x.value, ast.Constant))]:
            default.body = list(default.body) + [ast.copy_location(ast.Pass(), fn)]
        dispatcher = _copy.copy(fn)
        dispatcher.decorator_list = []
        dispatcher.body = stmts
        for x in stmts:
            ast.copy_location(x, fn)
            for n in ast.walk(x):
                if isinstance(n, (ast.expr, ast.stmt)) and not hasattr(n, "lineno"):
                    ast.copy_location(n, fn)
        renamed = []
        for i, (st, d, t) in enumerate(regs):
            r = _copy.copy(st)
            r.name, r.decorator_list = f"{name}__impl{i}", []
            renamed.append((st, r))
        new = []
        for st in out:
            if st is fn:
                new += [dispatcher, default]
            else:
                new.append(next((r for o, r in renamed if o is st), st))
        out = new
    for st in out:
        ast.fix_missing_locations(st)
    return out


def desugar(tree):
    tree.body = _single_dispatch(tree.body, False)
    for n in ast.walk(tree):
        if isinstance(n, ast.ClassDef):
            n.body = _single_dispatch(n.body, True)
    rebound = set()
    dotted = {}
    for n in ast.walk(tree):
        if isinstance(n, (ast.FunctionDef, ast.ClassDef, ast.AsyncFunctionDef)):
            rebound.add(n.name)
            if not isinstance(n, ast.ClassDef):
                for a in n.args.args + n.args.kwonlyargs + n.args.posonlyargs:
                    rebound.add(a.arg)
        elif isinstance(n, ast.Name) and isinstance(n.ctx, (ast.Store, ast.Del)):
            rebound.add(n.id)
        elif isinstance(n, ast.Import):
            for a in n.names:
                dotted[a.asname or a.name.split(".")[0]] = a.name if a.asname else a.name.split(".")[0]
                rebound.add(a.asname or a.name.split(".")[0])
        elif isinstance(n, ast.ImportFrom) and not n.level:
            for a in n.names:
                dotted[a.asname or a.name] = f"{n.module}.{a.name}"
                rebound.add(a.asname or a.name)
    tree = _Desugar(rebound, dotted).visit(tree)
    tree = _Scoped().visit(tree)
    tree = _Blocks().visit(tree)
    ast.fix_missing_locations(tree)
    return tree
