"""Positive fixture for the ENTROPY scanners (C18): every construct below must be reported on every run.
This file is never part of /repo; the check parses it as an extra in-memory module."""
import random
import time
import uuid
import numpy as np

_CACHE = {}                      # E4: module-level mutable state


class Leaky:
    shared = []                  # E4: class-level mutable state

    def __init__(self, rows=[]):  # E4: mutable default
        self.rng = random.Random()            # E1: private generator
        self.gen = np.random.default_rng()    # E1: private generator
        self.rows = rows

    def draw(self):
        random.seed(3)                        # E1: reseeding
        stamp = time.time()                   # E2: clock
        token = uuid.uuid4()                  # E2: OS entropy
        return id(self), hash(token), stamp   # E2: identity / hash
