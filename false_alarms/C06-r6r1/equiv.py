"""Equivalence probe for property C06 (imputers). Public API only.

Run as:  cd <tree> && /venv/bin/python /tmp/ref6/C06/out/r1_equiv.py
Prints one line `DIGEST <hex>`.
"""
import os
import sys

if os.environ.get("PYTHONHASHSEED") != "0":
    env = dict(os.environ, PYTHONHASHSEED="0")
    os.execve(sys.executable, [sys.executable] + sys.argv, env)

sys.path.insert(0, os.getcwd())

import copy
import hashlib
import random
import warnings

import numpy as np

warnings.simplefilter("ignore")

from ixai.imputer import MarginalImputer, DefaultImputer, BaseImputer  # noqa: E402
from ixai.storage import (BatchStorage, IntervalStorage, SequenceStorage,  # noqa: E402
                          GeometricReservoirStorage, UniformReservoirStorage)
from ixai.explainer import IncrementalPFI  # noqa: E402
from ixai.utils.wrappers.base import Wrapper  # noqa: E402

LOG = []


def log(*items):
    LOG.append(repr(items))


def rstate():
    return hashlib.sha256(repr(random.getstate()).encode()).hexdigest()[:16]


class RecordingModel:
    """Plain callable model; records every input it receives (deep copy, with key order)."""

    def __init__(self, fail_at=None, form="dict"):
        self.calls = []
        self.fail_at = fail_at
        self.form = form

    def __call__(self, x):
        self.calls.append((type(x).__name__, copy.deepcopy(list(x.items()))))
        if self.fail_at is not None and len(self.calls) == self.fail_at:
            raise ArithmeticError("model failed")
        total = 0.0
        for position, (key, value) in enumerate(x.items()):
            total += (position + 1) * float(value) + 0.001 * len(str(key))
        if self.form == "dict":
            return {"output": total}
        if self.form == "multi":
            return {"a": total, "b": -total}
        return total


FEATURES = ["f0", "f1", "f2", "f3", 4]


def make_rows(n, seed):
    rng = random.Random(seed)
    return [{name: rng.randint(-50, 50) + 1000 * i for name in FEATURES} for i in range(n)]


def storages():
    yield "batch", BatchStorage(store_targets=True)
    yield "batch_no_t", BatchStorage(store_targets=False)
    yield "interval", IntervalStorage(size=5, store_targets=True)
    yield "sequence", SequenceStorage(store_targets=False)
    yield "geometric", GeometricReservoirStorage(size=4, store_targets=True, constant_probability=0.8)
    yield "uniform", UniformReservoirStorage(size=4, store_targets=False)


SUBSETS = [
    [],
    ["f1"],
    ["f2", "f0"],
    {"f3", "f1", 4},
    set(),
    ("f0", "f1", "f2", "f3", 4),
    frozenset(["f0", 4]),
    ["f1", "f1", "f2"],          # duplicated feature
    ["f2", "new"],               # 'new' only present in some stored rows (see below)
    ["missing"],                 # never stored -> KeyError
    ["f0", "missing", "f1"],
]


def snapshot(storage):
    x, y = storage.get_data()
    return copy.deepcopy(list(x)), copy.deepcopy(list(y)), type(x).__name__, [id(r) for r in x]


def run_impute(tag, imputer, model, subset, x_i, storage=None, **kwargs):
    subset_before = copy.deepcopy(subset)
    x_before = copy.deepcopy(x_i)
    before = snapshot(storage) if storage is not None else None
    n_calls = len(model.calls)
    try:
        result = imputer.impute(subset, x_i, **kwargs)
        outcome = ("ok", type(result).__name__, copy.deepcopy(result),
                   [id(p) == id(result[0]) for p in result] if result else [])
    except Exception as error:  # noqa: BLE001
        outcome = ("exc", type(error).__name__)
    after = snapshot(storage) if storage is not None else None
    log(tag, sorted(map(str, subset)) if isinstance(subset, (set, frozenset)) else subset,
        list(subset) if isinstance(subset, (set, frozenset)) else None,
        kwargs, outcome, model.calls[n_calls:], subset == subset_before, x_i == x_before,
        list(x_i.items()) == list(x_before.items()), before == after, rstate())


def marginal_cases():
    for strategy in ("joint", "product", "something-else", None):
        for s_name, storage in storages():
            random.seed(11)
            np.random.seed(11)
            model = RecordingModel(form="dict" if strategy != "product" else "multi")
            imputer = MarginalImputer(model, strategy, storage)
            log("ctor", strategy, s_name, isinstance(imputer, BaseImputer),
                imputer.sampling_strategy, imputer.storage_object is storage,
                imputer.model_function is model)
            x_probe = {"f0": 0.5, "f1": 1.5, "f2": 2.5, "f3": 3.5, 4: 4.5}
            # empty storage
            for subset in ([], ["f0"], set()):
                run_impute(("empty", strategy, s_name), imputer, model, subset, dict(x_probe),
                           storage, n_samples=2)
            rows = make_rows(9, seed=3)
            rows[6]["new"] = 77
            rows[8]["new"] = 88
            for step, row in enumerate(rows):
                storage.update(row, step % 3)
                if step in (0, 3, 8):
                    for subset in SUBSETS:
                        for n_samples in (1, 3):
                            x_i = {"f3": -3.25, "f0": 0.5, "f1": 1.5, "f2": 2.5, 4: 4.5,
                                   "extra": 9.0}
                            run_impute((strategy, s_name, step), imputer, model,
                                       copy.copy(subset), x_i, storage, n_samples=n_samples)
                    # default n_samples, positional call
                    run_impute((strategy, s_name, step, "default-n"), imputer, model, ["f1", 4],
                               {"f0": 1.0, "f1": 2.0, 4: 3.0}, storage)
            # unusual n_samples
            for n_samples in (0, -2, True, np.int64(2), 2.0, "2", None):
                run_impute((strategy, s_name, "odd-n", repr(n_samples)), imputer, model, ["f2"],
                           dict(x_probe), storage, n_samples=n_samples)
            # non iterable subset / one-shot iterator subset
            run_impute((strategy, s_name, "non-iterable"), imputer, model, 5, dict(x_probe),
                       storage, n_samples=2)
            log("gen-subset", strategy, s_name)
            try:
                gen = (name for name in ["f0", "f3"])
                result = imputer.impute(gen, dict(x_probe), 2)
                log("gen-ok", result, model.calls[-2:], rstate())
            except Exception as error:  # noqa: BLE001
                log("gen-exc", type(error).__name__, rstate())
            # failing model: state left behind
            failing = RecordingModel(fail_at=2)
            imputer_f = MarginalImputer(failing, strategy, storage)
            run_impute((strategy, s_name, "model-fails"), imputer_f, failing, ["f0", "f1"],
                       dict(x_probe), storage, n_samples=4)
            # strategy changed after construction
            imputer.sampling_strategy = "product" if strategy == "joint" else "joint"
            run_impute((strategy, s_name, "switched"), imputer, model, ["f0", "f1", "f2"],
                       dict(x_probe), storage, n_samples=3)
            # storage swapped after construction
            other = BatchStorage()
            other.update({"f0": -1, "f1": -2, "f2": -3}, 0)
            imputer.storage_object = other
            run_impute((strategy, s_name, "swapped-storage"), imputer, model, ["f0", "f2"],
                       dict(x_probe), other, n_samples=2)


def default_cases():
    for form in ("dict", "multi", "scalar"):
        random.seed(5)
        model = RecordingModel(form=form)
        values = {"f0": 100, "f1": 101, "f2": 102, "f3": 103, 4: 104}
        values_before = copy.deepcopy(values)
        imputer = DefaultImputer(model, values)
        log("default-ctor", form, imputer.values is values, imputer.model_function is model)
        for subset in SUBSETS:
            for n_samples in (1, 4):
                x_i = {"f3": -3.25, "f0": 0.5, "f1": 1.5, "f2": 2.5, 4: 4.5, "extra": 9.0}
                run_impute(("default", form), imputer, model, copy.copy(subset), x_i,
                           n_samples=n_samples)
        run_impute(("default", form, "default-n"), imputer, model, ["f1"], {"f1": 1.0, "f0": 2.0})
        for n_samples in (0, -1, True, np.int64(3), 2.0, "2", None):
            run_impute(("default", form, "odd-n", repr(n_samples)), imputer, model, ["f2"],
                       {"f2": 1.0}, n_samples=n_samples)
        run_impute(("default", form, "non-iterable"), imputer, model, 5, {"f2": 1.0}, n_samples=1)
        failing = RecordingModel(fail_at=1)
        run_impute(("default", form, "model-fails"), DefaultImputer(failing, values), failing,
                   ["f0"], {"f0": 1.0}, n_samples=2)
        log("default-values-untouched", values == values_before, rstate())


class FnWrapper(Wrapper):
    def __init__(self, fn):
        super().__init__(fn, None)

    def __call__(self, x):
        return {"output": self._prediction_function(x)}


def explainer_cases():
    def predict(x):
        return 0.3 * x["a"] - 1.7 * x["b"] + 0.01 * x["c"] * x["a"]

    def loss(y, pred):
        return (y - pred["output"]) ** 2

    for strategy in ("joint", "product"):
        for make_storage in (lambda: GeometricReservoirStorage(size=20, store_targets=False),
                             lambda: IntervalStorage(size=7)):
            random.seed(2024)
            np.random.seed(2024)
            model = FnWrapper(predict)
            storage = make_storage()
            imputer = MarginalImputer(model, strategy, storage)
            explainer = IncrementalPFI(model_function=model, loss_function=loss,
                                       feature_names=["a", "b", "c"], storage=storage,
                                       imputer=imputer, n_inner_samples=3, smoothing_alpha=0.05)
            rng = random.Random(99)
            for _ in range(120):
                x = {"a": rng.gauss(0, 1), "b": rng.gauss(1, 2), "c": rng.random()}
                y = predict(x) + rng.gauss(0, 0.1)
                values = explainer.explain_one(x, y)
            log("pfi", strategy, type(storage).__name__, sorted(values.items()),
                sorted(explainer.variances.items()), snapshot(storage)[:2], rstate())
    random.seed(1)
    np.random.seed(1)
    model = FnWrapper(predict)
    explainer = IncrementalPFI(model_function=model, loss_function=loss,
                               feature_names=["a", "b", "c"],
                               imputer=DefaultImputer(model, {"a": 0.0, "b": 1.0, "c": 0.5}),
                               n_inner_samples=2, smoothing_alpha=0.05)
    rng = random.Random(7)
    for _ in range(60):
        x = {"a": rng.gauss(0, 1), "b": rng.gauss(1, 2), "c": rng.random()}
        values = explainer.explain_one(x, predict(x))
    log("pfi-default", sorted(values.items()), sorted(explainer.variances.items()), rstate())


def main():
    marginal_cases()
    default_cases()
    explainer_cases()
    digest = hashlib.sha256("\n".join(LOG).encode()).hexdigest()
    print("DIGEST", digest)


if __name__ == "__main__":
    main()
