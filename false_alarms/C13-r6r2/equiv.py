"""Equivalence digest for property C13 (river metric used as a loss).

Run as:  cd <tree> && /venv/bin/python /tmp/ref6/C13/out/r2_equiv.py
Prints a single line ``DIGEST <hex>``; only the public API is used.
"""
import os
import sys

if os.environ.get("PYTHONHASHSEED") != "0":
    os.environ["PYTHONHASHSEED"] = "0"
    os.execv(sys.executable, [sys.executable] + sys.argv)

sys.path.insert(0, os.getcwd())

import copy
import hashlib
import inspect
import random
import warnings

import numpy as np

warnings.filterwarnings("ignore")

from river import metrics
from river.metrics.base import Metric

import ixai
from ixai.utils.validators import validate_loss_function
from ixai.utils.wrappers import RiverMetricToLossFunction, RiverWrapper
from ixai.explainer import IncrementalPFI

assert os.path.abspath(ixai.__file__).startswith(os.getcwd()), ixai.__file__

random.seed(1234)
np.random.seed(1234)
RNG = random.Random(99)

LOG = []


def rec(*items):
    LOG.append(" | ".join(_fmt(item) for item in items))


def _fmt(value):
    if isinstance(value, complex):
        return "complex:%r" % (value,)
    if isinstance(value, (float, np.floating)):
        return "%s:%r" % (type(value).__name__, float(value))
    if isinstance(value, dict):
        return "{" + ", ".join("%s=%s" % (_fmt(k), _fmt(v)) for k, v in value.items()) + "}"
    if isinstance(value, (list, tuple)):
        return "[" + ", ".join(_fmt(v) for v in value) + "]"
    if value is None or isinstance(value, (bool, int, str, np.integer)):
        return "%s:%r" % (type(value).__name__, value)
    return "<%s>" % type(value).__name__


def attempt(label, function, *args, **kwargs):
    try:
        result = function(*args, **kwargs)
    except BaseException as error:  # noqa
        rec(label, "RAISED", type(error).__name__, type(error.__cause__).__name__)
        return None
    rec(label, "OK", result)
    return result


def metric_value(metric):
    try:
        return metric.get()
    except BaseException as error:  # noqa
        return "get-raised-" + type(error).__name__


# ---------------------------------------------------------------------------------------------
# 1. every river metric: what does the validator make of it, and how does the loss behave
# ---------------------------------------------------------------------------------------------
def all_metric_factories():
    factories = []
    for name in sorted(dir(metrics)):
        cls = getattr(metrics, name)
        if inspect.isclass(cls) and issubclass(cls, Metric):
            factories.append((name, cls))
    factories.append(("FBeta(2)", lambda: metrics.FBeta(beta=2)))
    factories.append(("MacroFBeta(.5)", lambda: metrics.MacroFBeta(beta=.5)))
    factories.append(("Accuracy+F1", lambda: metrics.Accuracy() + metrics.F1()))
    return factories


def observations_for(kind, n):
    out = []
    for _ in range(n):
        if kind == "regression":
            out.append((round(RNG.uniform(0.1, 5), 3), {"output": round(RNG.uniform(0.1, 5), 3)}))
        elif kind == "binary":
            out.append((RNG.choice([0, 1]), {"output": RNG.choice([0, 1])}))
        elif kind == "binary_proba":
            out.append((RNG.choice([0, 1]), {"output": round(RNG.uniform(0.05, 0.95), 3)}))
        elif kind == "multi":
            out.append((RNG.choice([0, 1, 2]), {"output": RNG.choice([0, 1, 2])}))
        elif kind == "dict":
            p = [RNG.uniform(0.05, 1) for _ in range(3)]
            s = sum(p)
            out.append((RNG.choice([0, 1, 2]), {c: round(v / s, 4) for c, v in enumerate(p)}))
        elif kind == "no_output_key":
            out.append((RNG.choice([0, 1]), {"class_0": 0.3, "class_1": 0.7}))
    return out


def exercise(name, make_metric):
    try:
        metric = make_metric()
    except BaseException as error:  # noqa
        rec(name, "ctor", type(error).__name__)
        return
    # a metric that already has a history when it is handed to the validator
    warm = make_metric()
    for metric_obj, tag in ((metric, "fresh"), (warm, "warm")):
        if tag == "warm":
            for y_true, y_pred in observations_for("binary", 7):
                try:
                    metric_obj.update(y_true=y_true, y_pred=y_pred["output"])
                except BaseException:  # noqa
                    try:
                        metric_obj.update(y_true=y_true, y_pred={0: 0.4, 1: 0.6})
                    except BaseException as error:  # noqa
                        rec(name, tag, "warmup-failed", type(error).__name__)
                        break
        before = metric_value(metric_obj)
        loss = attempt((name, tag, "validate"), validate_loss_function, metric_obj)
        rec(name, tag, "get before/after validate", before, metric_value(metric_obj))
        if loss is None:
            continue
        rec(name, tag, "type", type(loss).__name__, isinstance(loss, RiverMetricToLossFunction))
        second = validate_loss_function(metric_obj)  # a second explainer sharing the metric object
        history = []
        for kind in ("binary", "regression", "multi", "binary_proba", "dict", "no_output_key"):
            history.extend((kind, obs) for obs in observations_for(kind, 6))
        RNG.shuffle(history)
        for position, (kind, (y_true, y_pred)) in enumerate(history):
            caller = loss if position % 3 else second
            g0 = metric_value(metric_obj)
            if position % 2:
                attempt((name, tag, kind, position), caller, y_true, y_pred)
            else:
                attempt((name, tag, kind, position), caller, y_true=y_true, y_prediction=y_pred)
            rec(name, tag, kind, position, "get", g0, metric_value(metric_obj))
        # exceptional inputs: prediction is not a dict / wrong arity
        for bad in (0.8, None, [0.1, 0.9], "label"):
            g0 = metric_value(metric_obj)
            attempt((name, tag, "bad", repr(bad)), loss, 1, bad)
            rec(name, tag, "bad-get", g0, metric_value(metric_obj))
        attempt((name, tag, "arity"), loss, 1)
        # the metric keeps working as a metric
        try:
            metric_obj.update(y_true=1, y_pred=1)
        except BaseException as error:  # noqa
            rec(name, tag, "post-update", type(error).__name__)
        rec(name, tag, "post-get", metric_value(metric_obj))
        attempt((name, tag, "after real update"), loss, 1, {"output": 1, 0: .2, 1: .7, 2: .1})


for metric_name, factory in all_metric_factories():
    exercise(metric_name, factory)

# ---------------------------------------------------------------------------------------------
# 2. the wrapper used directly, both flags, truthy / falsy non-bool flags, positional arguments
# ---------------------------------------------------------------------------------------------
for flag in (False, True, 0, 1, None, "yes"):
    for make in (metrics.MAE, metrics.Accuracy, metrics.CrossEntropy, metrics.MacroF1, metrics.LogLoss):
        m = make()
        loss = attempt(("direct-ctor", make.__name__, repr(flag)), RiverMetricToLossFunction, m, flag)
        if loss is None:
            continue
        for y_true, y_pred in (observations_for("multi", 3) + observations_for("dict", 3)
                               + [(1, {"output": True}), (0, {}), (1, 5)]):
            g0 = metric_value(m)
            attempt(("direct", make.__name__, repr(flag)), loss, y_true, y_pred)
            rec("direct-get", g0, metric_value(m))
loss = RiverMetricToLossFunction(river_metric=metrics.MSE())
attempt("default-flag", loss, 2., {"output": 4.})
loss = RiverMetricToLossFunction(river_metric=metrics.MSE(), dict_input_metric=False)
attempt("kw-flag", loss, y_true=2., y_prediction={"output": 5.})


# objects that are not (complete) river metrics
class NoOrientation:
    def __init__(self):
        self.calls = []

    def update(self, y_true, y_pred):
        self.calls.append(("update", y_true, y_pred))
        return self

    def get(self):
        self.calls.append(("get",))
        return 3

    def revert(self, y_true, y_pred):
        self.calls.append(("revert", y_true, y_pred))
        return self


class FailingGet(NoOrientation):
    bigger_is_better = True

    def get(self):
        self.calls.append(("get",))
        raise KeyError("nothing yet")


class NoRevert:
    bigger_is_better = 1

    def __init__(self):
        self.calls = []

    def update(self, y_true, y_pred):
        self.calls.append(("update", y_true, y_pred))

    def get(self):
        self.calls.append(("get",))
        return 2.5


for duck_cls in (NoOrientation, FailingGet, NoRevert):
    for flag in (False, True):
        duck = duck_cls()
        loss = attempt(("duck-ctor", duck_cls.__name__, flag), RiverMetricToLossFunction, duck, flag)
        if loss is not None:
            attempt(("duck", duck_cls.__name__, flag), loss, 1, {"output": 2, "other": 3})
            attempt(("duck", duck_cls.__name__, flag), loss, 1, 7)
        rec("duck-calls", duck_cls.__name__, flag, duck.calls)
        rec("duck-validate", duck_cls.__name__, validate_loss_function(duck) is duck)


# river metrics with unusual behaviour handed to the validator
class RecordingMAE(metrics.MAE):
    """Records the exact call sequence the validator / the loss make on the metric."""

    def __init__(self):
        super().__init__()
        self.calls = []

    def update(self, y_true, y_pred, w=1.0):
        self.calls.append(("update", y_true, y_pred))
        return super().update(y_true, y_pred, w)

    def revert(self, y_true, y_pred, w=1.0):
        self.calls.append(("revert", y_true, y_pred))
        return super().revert(y_true, y_pred, w)

    def get(self):
        self.calls.append(("get",))
        return super().get()


class RecordingCrossEntropy(metrics.CrossEntropy):
    def __init__(self):
        super().__init__()
        self.calls = []

    def update(self, y_true, y_pred, w=1.0):
        self.calls.append(("update", y_true, copy.deepcopy(y_pred)))
        return super().update(y_true, y_pred, w)

    def revert(self, y_true, y_pred, w=1.0):
        self.calls.append(("revert", y_true, copy.deepcopy(y_pred)))
        return super().revert(y_true, y_pred, w)

    def get(self):
        self.calls.append(("get",))
        return super().get()


class Raising(metrics.MAE):
    def __init__(self, error, where, after=0):
        super().__init__()
        self.error, self.where, self.after, self.calls = error, where, after, []

    def _maybe(self, what):
        self.calls.append(what)
        if what == self.where:
            if self.after <= 0:
                raise self.error("boom")
            self.after -= 1

    def update(self, y_true, y_pred, w=1.0):
        self._maybe("update")
        return super().update(y_true, y_pred, w)

    def revert(self, y_true, y_pred, w=1.0):
        self._maybe("revert")
        return super().revert(y_true, y_pred, w)

    def get(self):
        self._maybe("get")
        return super().get()


for recording_cls in (RecordingMAE, RecordingCrossEntropy):
    m = recording_cls()
    loss = attempt(("recording", recording_cls.__name__), validate_loss_function, m)
    rec("recording-calls", recording_cls.__name__, m.calls)
    if loss is not None:
        attempt(("recording-call", recording_cls.__name__), loss, 1, {"output": 3., 0: .5, 1: .5})
        rec("recording-calls-2", recording_cls.__name__, m.calls)

for error in (AttributeError, TypeError, KeyError, ZeroDivisionError, KeyboardInterrupt):
    for where in ("update", "get", "revert"):
        for after in (0, 1, 2, 3):
            m = Raising(error, None, after)
            m.update(1., 3.)
            m.calls.clear()
            m.where = where
            loss = attempt(("raising", error.__name__, where, after), validate_loss_function, m)
            rec("raising-calls", error.__name__, where, after, m.calls)
            m.where = None
            rec("raising-get", metric_value(m))
            if loss is not None:
                m.where, m.after = where, 1
                attempt(("raising-use-1", error.__name__, where), loss, 2., {"output": 1.})
                attempt(("raising-use-2", error.__name__, where), loss, 2., {"output": 1.})
                m.where = None
                rec("raising-use-get", metric_value(m), m.calls)

# things that are not river metrics pass through untouched
def custom_loss(y_true, y_pred):
    return abs(y_true - y_pred["output"])


rec("passthrough", validate_loss_function(custom_loss) is custom_loss)
rec("passthrough-none", validate_loss_function(None) is None)
rec("passthrough-class", validate_loss_function(metrics.MAE) is metrics.MAE)

# ---------------------------------------------------------------------------------------------
# 3. explainers sharing one metric object
# ---------------------------------------------------------------------------------------------
def stream(n, seed):
    rng = np.random.RandomState(seed)
    for _ in range(n):
        x = {"a": float(rng.normal()), "b": float(rng.normal()), "c": float(rng.normal())}
        yield x, int(x["a"] + 0.5 * x["b"] > 0)


def model_scalar(x):
    return int(x["a"] > 0)


def model_proba(x):
    p = 1. / (1. + np.exp(-(x["a"] + 0.5 * x["b"])))
    return {0: float(1 - p), 1: float(p)}


for metric_factory, model in ((metrics.Accuracy, model_scalar), (metrics.MAE, model_scalar),
                              (metrics.CrossEntropy, model_proba), (metrics.MacroF1, model_scalar)):
    shared = metric_factory()
    random.seed(7)
    np.random.seed(7)
    explainers = [
        IncrementalPFI(model_function=RiverWrapper(model), loss_function=shared, feature_names=["a", "b", "c"],
                       smoothing_alpha=alpha, n_inner_samples=2)
        for alpha in (0.01, 0.1)
    ]
    for step, (x, y) in enumerate(stream(120, 5)):
        for explainer in explainers:
            values = explainer.explain_one(x, y)
        if step % 3 == 0:
            prediction = model(x)
            shared.update(y_true=y, y_pred=prediction)  # the metric is also used as a metric
        if step % 20 == 0:
            rec("pfi", metric_factory.__name__, step, values, metric_value(shared))
    for explainer in explainers:
        rec("pfi-final", metric_factory.__name__, explainer.importance_values, metric_value(shared))

digest = hashlib.sha256("\n".join(LOG).encode("utf-8")).hexdigest()
if os.environ.get("C13_DUMP"):
    open(os.environ["C13_DUMP"], "w").write("\n".join(LOG))
print("DIGEST", digest)
