"""Equivalence harness for change r2 (C04): product-of-marginals draw expressed through the joint draw.

Run as:  cd <tree> && /venv/bin/python /tmp/ref6/C04/out/r2_equiv.py
Prints one line `DIGEST <hex>`.
"""
import os
import sys

if os.environ.get("PYTHONHASHSEED") != "0":
    os.environ["PYTHONHASHSEED"] = "0"
    os.execv(sys.executable, [sys.executable] + sys.argv)

sys.path.insert(0, os.getcwd())

import hashlib
import random
import warnings

import numpy as np

warnings.filterwarnings("ignore")

from ixai.explainer import IncrementalSage, IncrementalPFI  # noqa: E402
from ixai.explainer.sage import BatchSage, IntervalSage  # noqa: E402
from ixai.imputer import MarginalImputer  # noqa: E402
from ixai.storage import (  # noqa: E402
    BatchStorage, IntervalStorage, UniformReservoirStorage, GeometricReservoirStorage)

LOG = []


def rec(*items):
    LOG.append(repr(items))


def rng_fingerprint():
    h = hashlib.sha256()
    h.update(repr(random.getstate()).encode())
    st = np.random.get_state()
    h.update(repr((st[0], st[1].tolist(), st[2], st[3], st[4])).encode())
    return h.hexdigest()[:16]


def seed(n):
    random.seed(n)
    np.random.seed(n)


FEATURES = ["alpha", "beta", "gamma", "delta", "eps"]
WEIGHTS = {"alpha": 1.5, "beta": -2.0, "gamma": 0.25, "delta": 3.0, "eps": -0.5}


def make_stream(n, seed_value, n_features=5):
    r = random.Random(seed_value)
    names = FEATURES[:n_features]
    out = []
    for _ in range(n):
        x = {name: round(r.uniform(-2, 2), 3) for name in names}
        y = sum(WEIGHTS[k] * v for k, v in x.items()) + r.gauss(0, 0.1)
        out.append((x, y))
    return out


class Model:
    """Records every input it is called with; optionally fails at the k-th call."""

    def __init__(self, fail_at=None, two_outputs=False):
        self.calls = []
        self.fail_at = fail_at
        self.two_outputs = two_outputs

    def _one(self, x):
        self.calls.append(tuple(x.items()))
        if self.fail_at is not None and len(self.calls) == self.fail_at:
            raise RuntimeError("model failure")
        value = sum(WEIGHTS[k] * v for k, v in x.items())
        if self.two_outputs:
            p = 1.0 / (1.0 + np.exp(-value))
            return {0: 1.0 - p, 1: p}
        return {"output": value}

    def __call__(self, x):
        if isinstance(x, dict):
            return self._one(x)
        return [self._one(x_i) for x_i in x]


class Loss:
    def __init__(self, fail_at=None, none_at=None):
        self.n = 0
        self.fail_at = fail_at
        self.none_at = none_at

    def __call__(self, y_true, y_pred):
        self.n += 1
        if self.fail_at is not None and self.n == self.fail_at:
            raise ArithmeticError("loss failure")
        if self.none_at is not None and self.n == self.none_at:
            return None
        if "output" in y_pred:
            return (y_true - y_pred["output"]) ** 2
        label = 1 if y_true > 0 else 0
        return -float(np.log(max(y_pred.get(label, 0.0), 1e-12)))


def storage_dump(storage):
    x_data, y_data = storage.get_data()
    return [tuple(x.items()) for x in x_data], list(y_data)


def incremental_state(explainer):
    state = {
        "iv": sorted(explainer.importance_values.items()),
        "iv_order": list(explainer.importance_values),
        "var": sorted(explainer.variances.items()),
        "seen": explainer.seen_samples,
    }
    if isinstance(explainer, IncrementalSage):
        state["marginal_prediction"] = sorted(explainer.marginal_prediction.items())
        state["losses"] = (explainer.marginal_loss, explainer.model_loss, explainer.explained_loss)
    return state


def attempt(label, fn):
    try:
        result = fn()
        rec(label, "ok", result)
    except Exception as error:  # noqa: BLE001 - the type is the observable
        rec(label, "raised", type(error).__name__)
    rec(label, "rng", rng_fingerprint())


def run_incremental(cls, strategy, dynamic, n_inner, n_features, two_outputs=False,
                    model_fail=None, loss_fail=None, loss_none=None, seed_value=1):
    label = (cls.__name__, strategy, dynamic, n_inner, n_features, two_outputs,
             model_fail, loss_fail, loss_none)
    seed(seed_value)
    names = FEATURES[:n_features]
    model = Model(fail_at=model_fail, two_outputs=two_outputs)
    loss = Loss(fail_at=loss_fail, none_at=loss_none)
    if dynamic:
        storage = GeometricReservoirStorage(size=6, store_targets=False)
    else:
        storage = UniformReservoirStorage(size=6, store_targets=False)
    imputer = MarginalImputer(model, strategy, storage)
    kwargs = dict(model_function=model, loss_function=loss, feature_names=names,
                  storage=storage, imputer=imputer, n_inner_samples=n_inner,
                  dynamic_setting=dynamic, smoothing_alpha=0.1)
    explainer = cls(**kwargs)
    for step, (x, y) in enumerate(make_stream(14, seed_value + 7, n_features)):
        override = 2 if step % 5 == 4 else None
        update = step % 4 != 3
        attempt(label + (step,), lambda: sorted(explainer.explain_one(
            x, y, n_inner_samples=override, update_storage=update).items()))
        rec(label, step, incremental_state(explainer), storage_dump(storage),
            len(model.calls), loss.n)
    rec(label, "calls", model.calls)


def run_batch(cls, strategy, original, n_inner, n_features, two_outputs=False,
              model_fail=None, loss_fail=None, loss_none=None, seed_value=2):
    label = (cls.__name__, strategy, original, n_inner, n_features, two_outputs,
             model_fail, loss_fail, loss_none)
    seed(seed_value)
    names = FEATURES[:n_features]
    model = Model(fail_at=model_fail, two_outputs=two_outputs)
    loss = Loss(fail_at=loss_fail, none_at=loss_none)
    stream = make_stream(9, seed_value + 11, n_features)
    if cls is BatchSage:
        storage = BatchStorage(store_targets=True)
        imputer = MarginalImputer(model, strategy, storage)
        explainer = BatchSage(model_function=model, feature_names=names, loss_function=loss,
                              n_inner_samples=n_inner, storage=storage, imputer=imputer)
        for x, y in stream[:6]:
            explainer.update_storage(x, y)
        x_data, y_data = storage.get_data()
        method = explainer.explain_many_original if original else explainer.explain_many
        attempt(label + ("many",), lambda: list(method(
            x_data=x_data, y_data=y_data, verbose=False).items()))
        rec(label, list(explainer.importance_values.items()))
        attempt(label + ("many2",), lambda: list(method(
            x_data=x_data[:3], y_data=y_data[:3], n_inner_samples=2, verbose=False).items()))
        rec(label, list(explainer.importance_values.items()))
        for x, y in stream[6:]:
            attempt(label + ("one",), lambda: list(explainer.explain_one(
                x, y, original_sage=original, verbose=False).items()))
            rec(label, list(explainer.importance_values.items()), storage_dump(storage))
    else:
        storage = IntervalStorage(size=4, store_targets=True)
        imputer = MarginalImputer(model, strategy, storage)
        explainer = IntervalSage(model_function=model, feature_names=names, loss_function=loss,
                                 n_inner_samples=n_inner, interval_length=3, storage=storage,
                                 imputer=imputer)
        for step, (x, y) in enumerate(stream):
            attempt(label + (step,), lambda: list(explainer.explain_one(
                x, y, force_explain=(step == 4), update_storage=(step != 5),
                verbose=False).items()))
            rec(label, list(explainer.importance_values.items()), explainer.seen_samples,
                storage_dump(storage))
    rec(label, "calls", model.calls, loss.n)


def run_imputer_direct():
    """MarginalImputer used on its own (public constructor + impute)."""
    rows = [x for x, _ in make_stream(7, 21, 5)]
    subsets = [
        set(FEATURES), set(FEATURES[:3]), {"delta"}, set(),
        list(FEATURES), ["eps", "alpha"], ["beta", "beta", "alpha", "beta"], [],
        tuple(FEATURES[1:4]), frozenset(FEATURES[2:]), dict.fromkeys(["gamma", "alpha"]),
    ]
    shrinking = set(FEATURES)
    for name in ["gamma", "alpha", "eps", "delta", "beta"]:
        shrinking.remove(name)
        subsets.append(shrinking.copy())
    for strategy in ("joint", "product", "something-else"):
        for storage_kind in ("batch", "interval", "uniform", "geometric"):
            seed(31)
            if storage_kind == "batch":
                storage = BatchStorage(store_targets=False)
            elif storage_kind == "interval":
                storage = IntervalStorage(size=4, store_targets=False)
            elif storage_kind == "uniform":
                storage = UniformReservoirStorage(size=4, store_targets=False)
            else:
                storage = GeometricReservoirStorage(size=4, store_targets=False)
            model = Model()
            imputer = MarginalImputer(model, strategy, storage)
            x_i = {name: 100.0 + k for k, name in enumerate(FEATURES)}
            label = ("imputer", strategy, storage_kind)
            # empty storage
            attempt(label + ("empty", "set"), lambda: imputer.impute({"alpha", "beta"}, x_i, 2))
            attempt(label + ("empty", "none"), lambda: imputer.impute(set(), x_i, 2))
            for row in rows:
                storage.update(dict(row))
                for k, subset in enumerate(subsets):
                    for n_samples in (1, 3):
                        attempt(label + (k, n_samples),
                                lambda: imputer.impute(subset, x_i, n_samples))
            # the set that the SAGE walk passes is mutated in place between calls
            absent = set(FEATURES)
            for name in ["delta", "alpha", "eps", "beta", "gamma"]:
                absent.remove(name)
                attempt(label + ("walk", name),
                        lambda: imputer.impute(feature_subset=absent, x_i=x_i, n_samples=2))
            # a stored row that lacks a feature, an unknown feature, an unhashable feature name
            broken = dict(rows[0])
            del broken["gamma"]
            for _ in range(4):
                storage.update(dict(broken))
            for k in range(6):
                attempt(label + ("broken", k),
                        lambda: imputer.impute(["alpha", "gamma", "beta"], x_i, 2))
            attempt(label + ("unknown",), lambda: imputer.impute(["alpha", "zeta"], x_i, 1))
            attempt(label + ("unhashable",), lambda: imputer.impute(["alpha", ["beta"]], x_i, 1))
            attempt(label + ("n0",), lambda: imputer.impute(["alpha"], x_i, 0))
            attempt(label + ("default-n",), lambda: imputer.impute(["alpha"], x_i))
            rec(label, "calls", model.calls, storage_dump(storage))


def main():
    run_imputer_direct()
    for strategy in ("joint", "product"):
        for dynamic in (True, False):
            for n_inner in (1, 3):
                run_incremental(IncrementalSage, strategy, dynamic, n_inner, 5)
                run_incremental(IncrementalPFI, strategy, dynamic, n_inner, 4)
        run_incremental(IncrementalSage, strategy, True, 2, 1)
        run_incremental(IncrementalSage, strategy, True, 2, 3, two_outputs=True)
        # failing / misbehaving user callbacks in the middle of a walk
        for fail in (9, 10, 14, 23):
            run_incremental(IncrementalSage, strategy, True, 2, 4, model_fail=fail)
        for fail in (3, 4, 5, 8, 13):
            run_incremental(IncrementalSage, strategy, False, 1, 4, loss_fail=fail)
            run_incremental(IncrementalSage, strategy, False, 1, 4, loss_none=fail)
        for original in (False, True):
            for n_inner in (1, 3):
                run_batch(BatchSage, strategy, original, n_inner, 5)
            run_batch(BatchSage, strategy, original, 2, 1)
            run_batch(BatchSage, strategy, original, 2, 3, two_outputs=True)
            for fail in (8, 12, 20):
                run_batch(BatchSage, strategy, original, 2, 4, model_fail=fail)
            for fail in (1, 2, 3, 7, 11):
                run_batch(BatchSage, strategy, original, 1, 4, loss_fail=fail)
                run_batch(BatchSage, strategy, original, 1, 4, loss_none=fail)
        for n_inner in (1, 2):
            run_batch(IntervalSage, strategy, False, n_inner, 5)
        run_batch(IntervalSage, strategy, False, 1, 4, loss_none=6)
        run_batch(IntervalSage, strategy, False, 1, 4, model_fail=15)

    # empty data: BatchSage on nothing, IncrementalSage explaining with an empty storage
    seed(5)
    model = Model()
    explainer = BatchSage(model_function=model, feature_names=FEATURES[:3], loss_function=Loss())
    attempt("empty-many", lambda: explainer.explain_many([], [], verbose=False))
    attempt("empty-orig", lambda: explainer.explain_many_original([], [], verbose=False))
    explainer = IncrementalSage(model_function=model, loss_function=Loss(),
                                feature_names=FEATURES[:3])
    (x0, y0), (x1, y1) = make_stream(2, 3, 3)
    attempt("empty-inc-0", lambda: sorted(explainer.explain_one(x0, y0, update_storage=False).items()))
    attempt("empty-inc-1", lambda: sorted(explainer.explain_one(x1, y1, update_storage=False).items()))
    rec(incremental_state(explainer), model.calls)
    # observation that lacks a feature (original mode reads x_i[feature])
    explainer = BatchSage(model_function=Model(), feature_names=FEATURES[:3], loss_function=Loss())
    data = make_stream(4, 9, 3)
    xs = [dict(x) for x, _ in data]
    ys = [y for _, y in data]
    del xs[2]["beta"]
    attempt("missing-orig", lambda: explainer.explain_many_original(xs, ys, verbose=False))
    attempt("missing-many", lambda: explainer.explain_many(xs, ys, verbose=False))
    rec(list(explainer.importance_values.items()))

    digest = hashlib.sha256("\n".join(LOG).encode()).hexdigest()
    print("DIGEST", digest)


if __name__ == "__main__":
    main()
